package localhost_test

// Replay for C04 (localhost): a relayer-chosen proof height beyond the chain's own height lets TimeoutPacket
// accept a height timeout that the chain has not reached. Injected with `go test -overlay`; never written to /repo.

import (
	"testing"

	clienttypes "github.com/cosmos/ibc-go/v11/modules/core/02-client/types"
	channeltypes "github.com/cosmos/ibc-go/v11/modules/core/04-channel/types"
	"github.com/cosmos/ibc-go/v11/modules/core/exported"
	localhost "github.com/cosmos/ibc-go/v11/modules/light-clients/09-localhost"
	ibctesting "github.com/cosmos/ibc-go/v11/testing"
	"github.com/cosmos/ibc-go/v11/testing/mock"
)

func TestVerifReplayLocalhostEarlyTimeout(t *testing.T) {
	coord := ibctesting.NewCoordinator(t, 1)
	chain := coord.GetChain(ibctesting.GetChainID(1))
	ctx := chain.GetContext()
	ck := chain.App.GetIBCKeeper().ChannelKeeper

	// two channel ends of one loopback channel over connection-localhost
	a, b := "channel-0", "channel-1"
	ck.SetChannel(ctx, mock.PortID, a, channeltypes.NewChannel(channeltypes.OPEN, channeltypes.UNORDERED, channeltypes.NewCounterparty(mock.PortID, b), []string{exported.LocalhostConnectionID}, mock.Version))
	ck.SetChannel(ctx, mock.PortID, b, channeltypes.NewChannel(channeltypes.OPEN, channeltypes.UNORDERED, channeltypes.NewCounterparty(mock.PortID, a), []string{exported.LocalhostConnectionID}, mock.Version))
	ck.SetNextSequenceSend(ctx, mock.PortID, a, 1)

	self := clienttypes.GetSelfHeight(ctx)
	timeoutHeight := clienttypes.NewHeight(self.RevisionNumber, self.RevisionHeight+100)
	seq, err := ck.SendPacket(ctx, mock.PortID, a, timeoutHeight, 0, []byte("data"))
	if err != nil {
		t.Fatalf("send: %v", err)
	}
	packet := channeltypes.NewPacket([]byte("data"), seq, mock.PortID, a, mock.PortID, b, timeoutHeight, 0)

	// the chain is 100 blocks away from the timeout height; the relayer claims a proof height beyond it
	proofHeight := clienttypes.NewHeight(self.RevisionNumber, self.RevisionHeight+1000)
	_, err = ck.TimeoutPacket(ctx, packet, localhost.SentinelProof, proofHeight, 0)
	if err == nil {
		t.Fatalf("VERIF-REPRODUCED localhost packet with timeout height %s timed out at chain height %s (proof height %s chosen by the relayer); commitment present after: %v",
			timeoutHeight, self, proofHeight, ck.HasPacketCommitment(ctx, mock.PortID, a, seq))
	}
}
