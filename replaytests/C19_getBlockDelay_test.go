package keeper

// Replay of the counterexample to "getBlockDelay == ceil(delay/max)" on the real function.
// Injected with `go test -overlay`; never written into /repo.

import (
	"math/big"
	"os"
	"strconv"
	"testing"

	"github.com/cosmos/cosmos-sdk/codec"
	codectypes "github.com/cosmos/cosmos-sdk/codec/types"
	"github.com/cosmos/cosmos-sdk/runtime"
	storetypes "github.com/cosmos/cosmos-sdk/store/v2/types"
	"github.com/cosmos/cosmos-sdk/testutil"

	"github.com/cosmos/ibc-go/v11/modules/core/03-connection/types"
)

func TestVerifReplayGetBlockDelay(t *testing.T) {
	d, _ := strconv.ParseUint(os.Getenv("VERIF_D"), 10, 64)
	m, _ := strconv.ParseUint(os.Getenv("VERIF_M"), 10, 64)
	key := storetypes.NewKVStoreKey("ibc")
	ctx := testutil.DefaultContextWithDB(t, key, storetypes.NewTransientStoreKey("t")).Ctx
	k := NewKeeper(codec.NewProtoCodec(codectypes.NewInterfaceRegistry()), runtime.NewKVStoreService(key), nil)
	k.SetParams(ctx, types.Params{MaxExpectedTimePerBlock: m})
	got := k.getBlockDelay(ctx, types.ConnectionEnd{DelayPeriod: d})
	want := new(big.Int)
	if m != 0 {
		want.Add(new(big.Int).SetUint64(d), new(big.Int).SetUint64(m-1))
		want.Div(want, new(big.Int).SetUint64(m))
	}
	if want.Cmp(new(big.Int).SetUint64(got)) != 0 {
		t.Fatalf("VERIF-REPRODUCED getBlockDelay(delay=%d,max=%d)=%d, exact ceil=%s", d, m, got, want)
	}
}
