package tendermint

// Replay of counterexamples to "success ==> now >= processedTime + delay (in N)" on the real function.
// Injected with `go test -overlay`; never written into /repo.

import (
	"math/big"
	"os"
	"strconv"
	"testing"
	"time"

	storetypes "github.com/cosmos/cosmos-sdk/store/v2/types"
	"github.com/cosmos/cosmos-sdk/testutil"

	clienttypes "github.com/cosmos/ibc-go/v11/modules/core/02-client/types"
)

func envU(name string) uint64 {
	v, _ := strconv.ParseUint(os.Getenv(name), 10, 64)
	return v
}

func TestVerifReplayDelayPeriod(t *testing.T) {
	pt, now, dT := envU("VERIF_PT"), envU("VERIF_NOW"), envU("VERIF_DT")
	ph, cur, dB := envU("VERIF_PH"), envU("VERIF_CUR"), envU("VERIF_DB")
	key := storetypes.NewKVStoreKey("ibc")
	ctx := testutil.DefaultContextWithDB(t, key, storetypes.NewTransientStoreKey("t")).Ctx
	ctx = ctx.WithBlockTime(time.Unix(0, int64(now))).WithBlockHeight(int64(cur)).WithChainID("chain")
	store := ctx.KVStore(key)
	h := clienttypes.NewHeight(0, 7)
	SetProcessedTime(store, h, pt)
	SetProcessedHeight(store, h, clienttypes.NewHeight(0, ph))
	err := verifyDelayPeriodPassed(ctx, store, h, dT, dB)
	sum := func(a, b uint64) *big.Int { return new(big.Int).Add(new(big.Int).SetUint64(a), new(big.Int).SetUint64(b)) }
	timeOK := dT == 0 || new(big.Int).SetUint64(now).Cmp(sum(pt, dT)) >= 0
	blockOK := dB == 0 || new(big.Int).SetUint64(cur).Cmp(sum(ph, dB)) >= 0
	if err == nil && !(timeOK && blockOK) {
		t.Fatalf("VERIF-REPRODUCED verifyDelayPeriodPassed accepted: now=%d processedTime=%d delayTime=%d (ok=%v) cur=%d processedHeight=%d delayBlocks=%d (ok=%v)", now, pt, dT, timeOK, cur, ph, dB, blockOK)
	}
}
