package main

import (
	"fmt"
	"strings"
	"unicode"
)

// Contract expression language: Go expression syntax plus ==>, <==>, forall/exists, old().

type Expr interface{ String() string }

type (
	EIdent  struct{ Name string }
	ELit    struct{ Kind, Val string } // Kind: int, string, char, bool, nil
	ESel    struct {
		X    Expr
		Name string
	}
	ECall struct {
		Fun  Expr
		Args []Expr
	}
	EIndex struct{ X, I Expr }
	ESlice struct{ X, Lo, Hi Expr }
	EUnary struct {
		Op string
		X  Expr
	}
	EBinary struct {
		Op   string
		X, Y Expr
	}
	EQuant struct {
		Forall bool
		Vars   []QVar
		Body   Expr
	}
	EIte struct{ C, A, B Expr }
	// ECompLit: a struct value T{Field: expr, ...} (unnamed fields are zero)
	ECompLit struct {
		Type   string
		Names  []string
		Values []Expr
	}
)

type QVar struct{ Name, Type string }

func (e *EIdent) String() string { return e.Name }
func (e *ELit) String() string   { return e.Val }
func (e *ESel) String() string   { return e.X.String() + "." + e.Name }
func (e *ECall) String() string {
	var a []string
	for _, x := range e.Args {
		a = append(a, x.String())
	}
	return e.Fun.String() + "(" + strings.Join(a, ", ") + ")"
}
func (e *EIndex) String() string { return e.X.String() + "[" + e.I.String() + "]" }
func (e *ESlice) String() string {
	lo, hi := "", ""
	if e.Lo != nil {
		lo = e.Lo.String()
	}
	if e.Hi != nil {
		hi = e.Hi.String()
	}
	return e.X.String() + "[" + lo + ":" + hi + "]"
}
func (e *EUnary) String() string  { return e.Op + e.X.String() }
func (e *EBinary) String() string { return "(" + e.X.String() + " " + e.Op + " " + e.Y.String() + ")" }
func (e *EQuant) String() string {
	q := "exists"
	if e.Forall {
		q = "forall"
	}
	var vs []string
	for _, v := range e.Vars {
		vs = append(vs, v.Name+" "+v.Type)
	}
	return "(" + q + " " + strings.Join(vs, ", ") + " :: " + e.Body.String() + ")"
}
func (e *ECompLit) String() string {
	var fs []string
	for i, n := range e.Names {
		fs = append(fs, n+": "+e.Values[i].String())
	}
	return e.Type + "{" + strings.Join(fs, ", ") + "}"
}
func (e *EIte) String() string {
	return "ite(" + e.C.String() + ", " + e.A.String() + ", " + e.B.String() + ")"
}

type tok struct {
	k string // id, int, str, chr, op, eof
	v string
}

func lexExpr(s string) ([]tok, error) {
	var out []tok
	i := 0
	for i < len(s) {
		c := s[i]
		switch {
		case c == ' ' || c == '\t' || c == '\n':
			i++
		case unicode.IsLetter(rune(c)) || c == '_':
			j := i
			for j < len(s) && (unicode.IsLetter(rune(s[j])) || unicode.IsDigit(rune(s[j])) || s[j] == '_') {
				j++
			}
			out = append(out, tok{"id", s[i:j]})
			i = j
		case c >= '0' && c <= '9':
			j := i
			for j < len(s) && (s[j] >= '0' && s[j] <= '9' || s[j] == 'x' || s[j] >= 'a' && s[j] <= 'f' || s[j] >= 'A' && s[j] <= 'F' || s[j] == '_') {
				j++
			}
			out = append(out, tok{"int", strings.ReplaceAll(s[i:j], "_", "")})
			i = j
		case c == '"':
			j := i + 1
			for j < len(s) && s[j] != '"' {
				if s[j] == '\\' {
					j++
				}
				j++
			}
			if j >= len(s) {
				return nil, fmt.Errorf("unterminated string in %q", s)
			}
			out = append(out, tok{"str", s[i : j+1]})
			i = j + 1
		case c == '\'':
			j := i + 1
			for j < len(s) && s[j] != '\'' {
				if s[j] == '\\' {
					j++
				}
				j++
			}
			out = append(out, tok{"chr", s[i : j+1]})
			i = j + 1
		default:
			ops := []string{"<==>", "==>", "::", "==", "!=", "<=", ">=", "&&", "||", "<<", ">>", "+", "-", "*", "/", "%", "<", ">", "!", "(", ")", "[", "]", ",", ".", ":", "{", "}"}
			found := false
			for _, o := range ops {
				if strings.HasPrefix(s[i:], o) {
					out = append(out, tok{"op", o})
					i += len(o)
					found = true
					break
				}
			}
			if !found {
				return nil, fmt.Errorf("bad character %q in %q", c, s)
			}
		}
	}
	out = append(out, tok{"eof", ""})
	return out, nil
}

type eparser struct {
	t   []tok
	p   int
	src string
}

func ParseExpr(s string) (e Expr, err error) {
	toks, err := lexExpr(s)
	if err != nil {
		return nil, err
	}
	p := &eparser{t: toks, src: s}
	defer func() {
		if r := recover(); r != nil {
			if pe, ok := r.(parseErr); ok {
				err = fmt.Errorf("%s in %q", string(pe), s)
				return
			}
			panic(r)
		}
	}()
	e = p.expr(0)
	if p.cur().k != "eof" {
		p.fail("unexpected " + p.cur().v)
	}
	return e, nil
}

type parseErr string

func (p *eparser) fail(m string)   { panic(parseErr(m)) }
func (p *eparser) cur() tok        { return p.t[p.p] }
func (p *eparser) next() tok       { t := p.t[p.p]; p.p++; return t }
func (p *eparser) isOp(o string) bool { return p.cur().k == "op" && p.cur().v == o }
func (p *eparser) expect(o string) {
	if !p.isOp(o) {
		p.fail("expected " + o + " got " + p.cur().v)
	}
	p.p++
}

var binPrec = map[string]int{
	"<==>": 1, "==>": 2, "||": 3, "&&": 4,
	"==": 5, "!=": 5, "<": 5, "<=": 5, ">": 5, ">=": 5,
	"+": 6, "-": 6, "*": 7, "/": 7, "%": 7, "<<": 7, ">>": 7,
}

func (p *eparser) expr(min int) Expr {
	lhs := p.unary()
	for {
		c := p.cur()
		if c.k != "op" {
			return lhs
		}
		pr, ok := binPrec[c.v]
		if !ok || pr < min {
			return lhs
		}
		p.p++
		var rhs Expr
		if c.v == "==>" { // right assoc
			rhs = p.expr(pr)
		} else {
			rhs = p.expr(pr + 1)
		}
		lhs = &EBinary{c.v, lhs, rhs}
	}
}

func (p *eparser) unary() Expr {
	if p.isOp("!") || p.isOp("-") {
		o := p.next().v
		return &EUnary{o, p.unary()}
	}
	if p.isOp("*") {
		// `*T` (a pointer type name in isType/dyn) or `*p` (the object behind a pointer)
		p.next()
		return &EUnary{"*", p.unary()}
	}
	return p.postfix(p.primary())
}

func (p *eparser) primary() Expr {
	c := p.next()
	switch c.k {
	case "int":
		return &ELit{"int", c.v}
	case "str":
		return &ELit{"string", c.v}
	case "chr":
		return &ELit{"char", c.v}
	case "id":
		switch c.v {
		case "true", "false":
			return &ELit{"bool", c.v}
		case "nil":
			return &ELit{"nil", "nil"}
		case "forall", "exists":
			var vars []QVar
			for {
				n := p.next()
				if n.k != "id" {
					p.fail("quantifier variable expected")
				}
				// type: sequence of tokens up to , or ::
				ty := ""
				for !p.isOp(",") && !p.isOp("::") {
					if p.cur().k == "eof" {
						p.fail("missing :: in quantifier")
					}
					ty += p.next().v
				}
				vars = append(vars, QVar{n.v, ty})
				if p.isOp(",") {
					p.p++
					continue
				}
				break
			}
			p.expect("::")
			body := p.expr(0)
			return &EQuant{c.v == "forall", vars, body}
		}
		return &EIdent{c.v}
	case "op":
		if c.v == "(" {
			e := p.expr(0)
			p.expect(")")
			return e
		}
	}
	p.fail("unexpected token " + c.v)
	return nil
}

func (p *eparser) postfix(e Expr) Expr {
	for {
		switch {
		case p.isOp("."):
			p.p++
			if p.isOp("(") { // type assertion x.(T): not supported
				p.fail("type assertion not supported in contracts")
			}
			n := p.next()
			if n.k != "id" {
				p.fail("selector expected")
			}
			e = &ESel{e, n.v}
		case p.isOp("("):
			p.p++
			var args []Expr
			for !p.isOp(")") {
				args = append(args, p.expr(0))
				if p.isOp(",") {
					p.p++
				}
			}
			p.expect(")")
			if id, ok := e.(*EIdent); ok && id.Name == "ite" && len(args) == 3 {
				e = &EIte{args[0], args[1], args[2]}
			} else {
				e = &ECall{e, args}
			}
		case p.isOp("{"):
			// composite literal: only after a (qualified) type name
			tn := ""
			switch t := e.(type) {
			case *EIdent:
				tn = t.Name
			case *ESel:
				if id, ok := t.X.(*EIdent); ok {
					tn = id.Name + "." + t.Name
				}
			}
			if tn == "" {
				p.fail("composite literal needs a type name")
			}
			p.p++
			cl := &ECompLit{Type: tn}
			for !p.isOp("}") {
				n := p.next()
				if n.k != "id" {
					p.fail("field name expected in composite literal")
				}
				p.expect(":")
				cl.Names = append(cl.Names, n.v)
				cl.Values = append(cl.Values, p.expr(0))
				if p.isOp(",") {
					p.p++
				}
			}
			p.expect("}")
			e = cl
		case p.isOp("["):
			p.p++
			var lo, hi Expr
			if !p.isOp(":") {
				lo = p.expr(0)
			}
			if p.isOp(":") {
				p.p++
				if !p.isOp("]") {
					hi = p.expr(0)
				}
				p.expect("]")
				e = &ESlice{e, lo, hi}
			} else {
				p.expect("]")
				e = &EIndex{e, lo}
			}
		default:
			return e
		}
	}
}
