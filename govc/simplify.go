package main

import "strings"

// peephole simplification of generated SMT text: selector-over-constructor for Bytes values
//   (b_s (mkB c s)) -> s        (b_nil (mkB c s)) -> c
// The strings solvers do not always see through the datatype wrapper on their own.

func sexprEnd(s string, i int) int {
	// returns the index just past the s-expression starting at i (atom, string literal or list)
	n := len(s)
	if i >= n {
		return -1
	}
	switch s[i] {
	case '(':
		d := 0
		inStr := false
		for j := i; j < n; j++ {
			c := s[j]
			if inStr {
				if c == '"' {
					inStr = false
				}
				continue
			}
			switch c {
			case '"':
				inStr = true
			case '(':
				d++
			case ')':
				d--
				if d == 0 {
					return j + 1
				}
			}
		}
		return -1
	case '"':
		for j := i + 1; j < n; j++ {
			if s[j] == '"' {
				if j+1 < n && s[j+1] == '"' { // escaped quote
					j++
					continue
				}
				return j + 1
			}
		}
		return -1
	default:
		j := i
		for j < n && s[j] != ' ' && s[j] != ')' && s[j] != '(' {
			j++
		}
		return j
	}
}

func simplifyLine(s string) string {
	for _, sel := range []struct {
		pat  string
		pick int
	}{{"(b_s (mkB ", 1}, {"(b_nil (mkB ", 0}} {
		for {
			i := strings.Index(s, sel.pat)
			if i < 0 {
				break
			}
			a := i + len(sel.pat)
			e1 := sexprEnd(s, a)
			if e1 < 0 || e1 >= len(s) || s[e1] != ' ' {
				break
			}
			e2 := sexprEnd(s, e1+1)
			if e2 < 0 || e2+1 >= len(s) || s[e2] != ')' || s[e2+1] != ')' {
				break
			}
			args := []string{s[a:e1], s[e1+1 : e2]}
			s = s[:i] + args[sel.pick] + s[e2+2:]
		}
	}
	// (str.++ "" x) with exactly two operands
	for {
		i := strings.Index(s, "(str.++ \"\" ")
		if i < 0 {
			break
		}
		a := i + len("(str.++ \"\" ")
		e1 := sexprEnd(s, a)
		if e1 < 0 || e1 >= len(s) || s[e1] != ')' {
			// more operands: just drop the empty one
			s = s[:i] + "(str.++ " + s[a:]
			continue
		}
		s = s[:i] + s[a:e1] + s[e1+1:]
	}
	return s
}

func simplifyScript(lines []string) []string {
	out := make([]string, len(lines))
	for i, l := range lines {
		if strings.Contains(l, "mkB") || strings.Contains(l, "(str.++ \"\" ") {
			out[i] = simplifyLine(l)
		} else {
			out[i] = l
		}
	}
	return out
}
