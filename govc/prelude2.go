package main

import (
	"go/types"
)

// Additional library models (kept apart from prelude.go to keep files small).

const fp64 = "(_ FloatingPoint 11 53)"

func fpVal(t string) Val { return Val{S: fp64, T: t, Typ: types.Typ[types.Float64]} }

func init() {
	reg("math.Ceil", func(p *preCall) Val { return fpVal("(fp.roundToIntegral RTP " + p.args[0].T + ")") })
	reg("math.Floor", func(p *preCall) Val { return fpVal("(fp.roundToIntegral RTN " + p.args[0].T + ")") })
	reg("math.Trunc", func(p *preCall) Val { return fpVal("(fp.roundToIntegral RTZ " + p.args[0].T + ")") })
}
