package main

import (
	"go/types"
	"strings"
)

// Models of cosmos-sdk coin/integer helpers (T-prelude). math.Int is a mathematical integer (it is arbitrary
// precision below 2^256; the 256-bit overflow panic of Add/Mul is not modelled: noted as an assumption).

const sdkTypes = "github.com/cosmos/cosmos-sdk/types"
const sdkMath = "cosmossdk.io/math"

func (fc *FnCtx) coinParts(v Val) (denom, amt string, ok bool) {
	if v.Typ == nil {
		return "", "", false
	}
	_, fd, ok1 := fc.B.fieldOf(v.Typ, "Denom")
	_, fa, ok2 := fc.B.fieldOf(v.Typ, "Amount")
	if !ok1 || !ok2 {
		return "", "", false
	}
	return "(" + fd.sel + " " + v.T + ")", "(" + fa.sel + " " + v.T + ")", true
}

func (fc *FnCtx) mkCoin(t types.Type, denom, amt string) Val {
	s := fc.B.SortOf(t)
	info := fc.B.structs[s]
	if info == nil {
		fc.unsupported("sdk.Coin sort not available")
		return fc.freshVal(t, "coin")
	}
	args := make([]string, len(info.fields))
	for i, f := range info.fields {
		switch f.name {
		case "Denom":
			args[i] = denom
		case "Amount":
			args[i] = amt
		default:
			args[i] = fc.zero(f.typ)
		}
	}
	return fc.mkVal(t, "("+info.ctor+" "+strings.Join(args, " ")+")")
}

func init() {
	// In the safety sweep the nil-ness of a math.Int (its zero value wraps a nil *big.Int; every method panics on
	// it) is tracked with the predicate int_isnil: values read from inputs may be nil, results of constructors and
	// of arithmetic are not.
	nilInt := func(p *preCall, t string) {
		fc := p.fc()
		if fc.Mode != "safety" || p.cc == nil {
			return
		}
		fc.B.DeclFun("int_isnil", []string{"Int"}, "Bool")
		fc.safety(p.reach, "(int_isnil "+t+")", "nil-math-int", p.cc)
	}
	notNil := func(p *preCall, v Val) Val {
		fc := p.fc()
		if fc.Mode == "safety" && v.S == "Int" && v.T != "" {
			if nt, ok := v.Typ.(*types.Named); ok && nt.Obj().Name() == "Int" && nt.Obj().Pkg() != nil && nt.Obj().Pkg().Path() == sdkMath {
				fc.B.DeclFun("int_isnil", []string{"Int"}, "Bool")
				fc.B.Assert(implies(p.reach, not("(int_isnil "+v.T+")")))
			}
		}
		return v
	}
	mi := func(name string, f func(*preCall) Val) {
		reg("("+sdkMath+".Int)."+name, func(p *preCall) Val {
			if name != "IsNil" {
				nilInt(p, p.args[0].T)
			}
			return notNil(p, f(p))
		})
	}
	mi("IsNegative", func(p *preCall) Val { return boolVal("(< " + p.args[0].T + " 0)") })
	mi("IsZero", func(p *preCall) Val { return boolVal("(= " + p.args[0].T + " 0)") })
	mi("IsPositive", func(p *preCall) Val { return boolVal("(> " + p.args[0].T + " 0)") })
	mi("IsNil", func(p *preCall) Val {
		if p.fc().Mode == "safety" {
			p.fc().B.DeclFun("int_isnil", []string{"Int"}, "Bool")
			return boolVal("(int_isnil " + p.args[0].T + ")")
		}
		p.fc().B.Note("math.Int.IsNil modelled as false (nil-ness of math.Int not tracked)")
		return boolVal("false")
	})
	mi("Add", func(p *preCall) Val { return Val{S: "Int", T: "(+ " + p.args[0].T + " " + p.args[1].T + ")", Typ: p.args[0].Typ} })
	mi("Sub", func(p *preCall) Val { return Val{S: "Int", T: "(- " + p.args[0].T + " " + p.args[1].T + ")", Typ: p.args[0].Typ} })
	mi("Mul", func(p *preCall) Val { return Val{S: "Int", T: "(* " + p.args[0].T + " " + p.args[1].T + ")", Typ: p.args[0].Typ} })
	mi("Quo", func(p *preCall) Val {
		// big.Int.Quo: truncated division (rounds toward zero); panics on a zero divisor
		fc := p.fc()
		a, b := p.args[0].T, p.args[1].T
		if p.cc != nil {
			fc.safety(p.reach, eq(b, "0"), "int-div-zero", p.cc)
		}
		abs := func(x string) string { return "(ite (>= " + x + " 0) " + x + " (- " + x + "))" }
		q := "(div " + abs(a) + " " + abs(b) + ")"
		return Val{S: "Int", T: fc.def("quo", "Int", ite(eq("(>= "+a+" 0)", "(>= "+b+" 0)"), q, "(- "+q+")")), Typ: p.args[0].Typ}
	})
	mi("Neg", func(p *preCall) Val { return Val{S: "Int", T: "(- " + p.args[0].T + ")", Typ: p.args[0].Typ} })
	mi("Equal", func(p *preCall) Val { return boolVal(eq(p.args[0].T, p.args[1].T)) })
	mi("LT", func(p *preCall) Val { return boolVal("(< " + p.args[0].T + " " + p.args[1].T + ")") })
	mi("LTE", func(p *preCall) Val { return boolVal("(<= " + p.args[0].T + " " + p.args[1].T + ")") })
	mi("GT", func(p *preCall) Val { return boolVal("(> " + p.args[0].T + " " + p.args[1].T + ")") })
	mi("GTE", func(p *preCall) Val { return boolVal("(>= " + p.args[0].T + " " + p.args[1].T + ")") })
	mi("String", func(p *preCall) Val {
		fc := p.fc()
		x := p.args[0].T
		return strVal(ite("(>= "+x+" 0)", fc.B.Dec(x), "(str.++ \"-\" "+fc.B.Dec("(- "+x+")")+")"))
	})
	mi("IsUint64", func(p *preCall) Val {
		return boolVal("(and (<= 0 " + p.args[0].T + ") (< " + p.args[0].T + " " + two64 + "))")
	})
	mi("Uint64", func(p *preCall) Val {
		fc := p.fc()
		if p.cc != nil {
			fc.safety(p.reach, not("(and (<= 0 "+p.args[0].T+") (< "+p.args[0].T+" "+two64+"))"), "int-uint64", p.cc)
		}
		return Val{S: "Int", T: p.args[0].T, Typ: types.Typ[types.Uint64]}
	})
	reg(sdkMath+".ZeroInt", func(p *preCall) Val { return notNil(p, Val{S: "Int", T: "0", Typ: p.typ(0)}) })
	reg(sdkMath+".OneInt", func(p *preCall) Val { return notNil(p, Val{S: "Int", T: "1", Typ: p.typ(0)}) })
	reg(sdkMath+".NewInt", func(p *preCall) Val { return notNil(p, Val{S: "Int", T: p.args[0].T, Typ: p.typ(0)}) })
	reg(sdkMath+".NewIntFromUint64", func(p *preCall) Val { return Val{S: "Int", T: p.args[0].T, Typ: p.typ(0)} })
	reg(sdkMath+".NewIntFromString", func(p *preCall) Val {
		fc := p.fc()
		fc.B.DeclFun("intparse", []string{"String"}, "Int")
		fc.B.DeclFun("intparse_ok", []string{"String"}, "Bool")
		s := p.str(0)
		if fc.Mode == "safety" {
			// the parsed value is a proper (non-nil) Int exactly when parsing succeeded
			fc.B.DeclFun("int_isnil", []string{"Int"}, "Bool")
			r := fc.B.Fresh("parsedint", "Int")
			fc.B.Assert(implies(p.reach, and(implies("(intparse_ok "+s+")", and(eq(r, "(intparse "+s+")"), not("(int_isnil "+r+")"))), implies(not("(intparse_ok "+s+")"), "(int_isnil "+r+")"))))
			return tup(Val{S: "Int", T: r, Typ: p.typ(0)}, boolVal("(intparse_ok "+s+")"))
		}
		return tup(Val{S: "Int", T: ite("(intparse_ok "+s+")", "(intparse "+s+")", "0"), Typ: p.typ(0)}, boolVal("(intparse_ok "+s+")"))
	})

	// ---- sdk.Coin / sdk.Coins
	reg(sdkTypes+".NewCoin", func(p *preCall) Val {
		fc := p.fc()
		fc.B.DeclFun("valid_denom", []string{"String"}, "Bool")
		d, a := p.str(0), p.args[1].T
		if p.cc != nil {
			fc.safety(p.reach, or("(< "+a+" 0)", not("(valid_denom "+d+")")), "newcoin-invalid", p.cc)
		}
		return fc.mkCoin(p.typ(0), d, a)
	})
	reg(sdkTypes+".NewCoins", func(p *preCall) Val {
		fc := p.fc()
		va := p.args[0]
		if va.VA == nil || len(va.VA.vals) != 1 {
			if va.VA != nil && len(va.VA.vals) == 0 {
				return Val{S: va.S, T: fc.zero(p.typ(0)), Typ: p.typ(0)}
			}
			fc.unsupported("sdk.NewCoins with other than one coin")
			return fc.freshVal(p.typ(0), "coins")
		}
		c := va.VA.vals[0]
		_, amt, ok := fc.coinParts(c)
		if !ok {
			fc.unsupported("sdk.NewCoins: coin parts")
			return fc.freshVal(p.typ(0), "coins")
		}
		if p.cc != nil {
			fc.safety(p.reach, "(< "+amt+" 0)", "newcoins-negative", p.cc)
		}
		es := fc.B.SortOf(va.VA.elem)
		one := "(mkS false 1 (store ((as const (Array Int " + es + ")) " + fc.zero(va.VA.elem) + ") 0 " + c.T + "))"
		empty := "(mkS false 0 ((as const (Array Int " + es + ")) " + fc.zero(va.VA.elem) + "))"
		fc.trusted["sdk.NewCoins(c): [c] for a positive amount, empty for a zero amount (zero coins are removed)"] = true
		return Val{S: "(Slice " + es + ")", T: fc.def("coins", "(Slice "+es+")", ite(eq(amt, "0"), empty, one)), Typ: p.typ(0)}
	})
	coinM := func(name string, f func(*preCall) Val) {
		reg("("+sdkTypes+".Coin)."+name, func(p *preCall) Val {
			if fc := p.fc(); fc.Mode == "safety" && p.cc != nil && (name == "IsZero" || name == "IsNegative" || name == "IsPositive" || name == "Add" || name == "Sub") {
				if _, a, ok := fc.coinParts(p.args[0]); ok {
					fc.B.DeclFun("int_isnil", []string{"Int"}, "Bool")
					fc.safety(p.reach, "(int_isnil "+a+")", "nil-math-int", p.cc)
				}
			}
			return f(p)
		})
	}
	// sdk.Coin.Validate: nil error only for a valid denomination and a non-nil, non-negative amount
	reg("("+sdkTypes+".Coin).Validate", func(p *preCall) Val {
		fc := p.fc()
		e := fc.freshErr("coinvalid")
		if d, a, ok := fc.coinParts(p.args[0]); ok {
			fc.B.DeclFun("valid_denom", []string{"String"}, "Bool")
			fc.B.DeclFun("int_isnil", []string{"Int"}, "Bool")
			fc.B.Assert(implies(p.reach, implies(eq(e.T, "0"), and("(valid_denom "+d+")", not("(int_isnil "+a+")"), "(>= "+a+" 0)"))))
		}
		return e
	})
	coinM("GetDenom", func(p *preCall) Val { d, _, _ := p.fc().coinParts(p.args[0]); return strVal(d) })
	coinM("IsZero", func(p *preCall) Val { _, a, _ := p.fc().coinParts(p.args[0]); return boolVal(eq(a, "0")) })
	coinM("IsNegative", func(p *preCall) Val { _, a, _ := p.fc().coinParts(p.args[0]); return boolVal("(< " + a + " 0)") })
	coinM("IsPositive", func(p *preCall) Val { _, a, _ := p.fc().coinParts(p.args[0]); return boolVal("(> " + a + " 0)") })
	coinM("Add", func(p *preCall) Val {
		fc := p.fc()
		d1, a1, _ := fc.coinParts(p.args[0])
		d2, a2, _ := fc.coinParts(p.args[1])
		if p.cc != nil {
			fc.safety(p.reach, not(eq(d1, d2)), "coin-denom-mismatch", p.cc)
		}
		return fc.mkCoin(p.args[0].Typ, d1, "(+ "+a1+" "+a2+")")
	})
	coinM("Sub", func(p *preCall) Val {
		fc := p.fc()
		d1, a1, _ := fc.coinParts(p.args[0])
		d2, a2, _ := fc.coinParts(p.args[1])
		if p.cc != nil {
			fc.safety(p.reach, or(not(eq(d1, d2)), "(< (- "+a1+" "+a2+") 0)"), "coin-sub-negative", p.cc)
		}
		return fc.mkCoin(p.args[0].Typ, d1, "(- "+a1+" "+a2+")")
	})
	coinM("String", func(p *preCall) Val { return p.fc().freshVal(types.Typ[types.String], "coinstr") })

	// address codec (bech32): deterministic decode
	regInv("cosmossdk.io/core/address.Codec.StringToBytes", func(p *preCall) Val {
		fc := p.fc()
		fc.B.DeclFun("bech32_dec", []string{"String"}, "String")
		fc.B.DeclFun("bech32_ok", []string{"String"}, "Bool")
		s := p.str(1)
		e := fc.B.Fresh("addr_err", "Int")
		fc.B.Assert(and("(>= "+e+" 0)", eq(eq(e, "0"), "(bech32_ok "+s+")"), "(not (is_sentinel "+e+"))", implies("(bech32_ok "+s+")", "(> (str.len (bech32_dec "+s+")) 0)")))
		return tup(bytesVal("(mkB (not (bech32_ok "+s+")) (ite (bech32_ok "+s+") (bech32_dec "+s+") \"\"))"), Val{S: "Int", T: e, Typ: types.Universe.Lookup("error").Type()})
	})
}

// ---- sdk.Coins as a set of (denom, amount): coins_amt(coins, denom) is the amount of denom (0 if absent)
func init() {
	amtFn := func(fc *FnCtx, coinsSort string) {
		fc.B.DeclFun("coins_amt", []string{coinsSort, "String"}, "Int")
	}
	reg("("+sdkTypes+".Coins).AmountOf", func(p *preCall) Val {
		fc := p.fc()
		amtFn(fc, p.args[0].S)
		t := "(coins_amt " + p.args[0].T + " " + p.str(1) + ")"
		fc.B.Assert(implies(p.reach, "(>= "+t+" 0)"))
		fc.trusted["sdk.Coins modelled as a finite map denom -> amount (coins_amt); AmountOf/SafeSub/IsZero by their documented meaning"] = true
		return Val{S: "Int", T: t, Typ: p.typ(0)}
	})
	reg("("+sdkTypes+".Coins).IsZero", func(p *preCall) Val {
		fc := p.fc()
		amtFn(fc, p.args[0].S)
		// named by a Boolean constant: quantifiers are never embedded in terms/definitions (cvc5 1.0 answered
		// "unsat" on a satisfiable script that had this quantifier inside an ite condition of a definition)
		b := fc.B.Fresh("coins_iszero", "Bool")
		fc.B.Assert("(= " + b + " (forall ((cd!d String)) (! (= (coins_amt " + p.args[0].T + " cd!d) 0) :pattern ((coins_amt " + p.args[0].T + " cd!d)))))")
		return boolVal(b)
	})
	reg("("+sdkTypes+".Coins).SafeSub", func(p *preCall) Val {
		fc := p.fc()
		amtFn(fc, p.args[0].S)
		va := p.args[1]
		tupT, _ := p.resT.(*types.Tuple)
		if va.VA == nil || len(va.VA.vals) != 1 || tupT == nil {
			fc.unsupported("sdk.Coins.SafeSub with other than one coin")
			return p.fr.freshResult(p.resT, "safesub")
		}
		d, a, ok := fc.coinParts(va.VA.vals[0])
		if !ok {
			fc.unsupported("sdk.Coins.SafeSub: coin parts")
			return p.fr.freshResult(p.resT, "safesub")
		}
		res := fc.freshVal(tupT.At(0).Type(), "safesub")
		c := p.args[0].T
		fc.B.Assert(implies(p.reach, "(forall ((cd!d String)) (! (= (coins_amt "+res.T+" cd!d) (- (coins_amt "+c+" cd!d) (ite (= cd!d "+d+") "+a+" 0))) :pattern ((coins_amt "+res.T+" cd!d))))"))
		neg := "(< (coins_amt " + c + " " + d + ") " + a + ")"
		fc.B.Assert(implies(p.reach, "(>= (coins_amt "+c+" "+d+") 0)"))
		return tup(res, boolVal(neg))
	})
	// slices.Delete(s, i, j): the elements before i followed by the elements from j on
	reg("slices.Delete", func(p *preCall) Val {
		fc := p.fc()
		s, i, j := p.args[0], p.args[1].T, p.args[2].T
		if !strings.HasPrefix(s.S, "(Slice ") {
			fc.unsupported("slices.Delete on %s", s.S)
			return p.fr.freshResult(p.resT, "sldel")
		}
		if p.cc != nil {
			fc.safety(p.reach, or("(< "+i+" 0)", "(> "+i+" "+j+")", "(> "+j+" (s_len "+s.T+"))"), "slice-bounds", p.cc)
		}
		res := fc.freshVal(s.Typ, "sldel")
		fc.B.Assert(implies(p.reach, and(eq("(s_len "+res.T+")", "(- (s_len "+s.T+") (- "+j+" "+i+"))"), eq("(s_nil "+res.T+")", "(s_nil "+s.T+")"),
			"(forall ((k Int)) (! (= (select (s_arr "+res.T+") k) (ite (< k "+i+") (select (s_arr "+s.T+") k) (select (s_arr "+s.T+") (+ k (- "+j+" "+i+"))))) :pattern ((select (s_arr "+res.T+") k))))")))
		return res
	})
}

// ---- go-ethereum helpers used by the attestations light client (T-crypto: uninterpreted)
func init() {
	const gethCommon = "github.com/ethereum/go-ethereum/common"
	const gethCrypto = "github.com/ethereum/go-ethereum/crypto"
	reg(gethCommon+".HexToAddress", func(p *preCall) Val {
		fc := p.fc()
		fc.B.DeclFun("hex_to_addr", []string{"String"}, "String")
		t := "(hex_to_addr " + p.str(0) + ")"
		fc.B.Assert(eq("(str.len "+t+")", "20"))
		return Val{S: "Bytes", T: "(mkB false " + t + ")", Typ: p.typ(0)}
	})
	reg(gethCrypto+".SigToPub", func(p *preCall) Val {
		// public-key recovery: deterministic in (hash, signature); the recovered key is an opaque value
		fc := p.fc()
		tupT := p.resT.(*types.Tuple)
		pt := tupT.At(0).Type().Underlying().(*types.Pointer)
		ks := fc.B.SortOf(pt.Elem())
		fc.B.DeclFun("sig_pubkey", []string{"String", "String"}, ks)
		fc.B.DeclFun("sig_recover_err", []string{"String", "String"}, "Int")
		h, s := p.str(0), p.str(1)
		e := "(sig_recover_err " + h + " " + s + ")"
		fc.B.Assert(and("(>= "+e+" 0)", implies(not(eq(e, "0")), and(not("(is_sentinel "+e+")"), not("(is_sentinel (err_root "+e+"))")))))
		ptr := fc.alloc(p.st, pt.Elem(), "pubkey")
		fc.store(p.st, ptr, fc.mkVal(pt.Elem(), "(sig_pubkey "+h+" "+s+")"))
		ptr.Typ = tupT.At(0).Type()
		res := ptr
		res.T = ite(eq(e, "0"), ptr.T, "0")
		fc.trusted["T-crypto: secp256k1 public-key recovery (go-ethereum crypto.SigToPub) is a deterministic function of (hash, signature)"] = true
		return tup(res, Val{S: "Int", T: e, Typ: tupT.At(1).Type()})
	})
	reg(gethCrypto+".PubkeyToAddress", func(p *preCall) Val {
		fc := p.fc()
		fc.B.DeclFun("pub_addr", []string{p.args[0].S}, "String")
		t := "(pub_addr " + p.args[0].T + ")"
		fc.B.Assert(eq("(str.len "+t+")", "20"))
		return Val{S: "Bytes", T: "(mkB false " + t + ")", Typ: p.typ(0)}
	})
}

// ---- strings.Builder: the accumulated text is a ghost string per builder object
func init() {
	bget := func(p *preCall) (Val, string) {
		fc := p.fc()
		ptr := p.args[0]
		obj := fc.load(p.st, ptr)
		fc.B.DeclFun("builder_text", []string{obj.S}, "String")
		fc.B.Assert(eq("(builder_text "+fc.zero(obj.Typ)+")", "\"\""))
		return obj, "(builder_text " + obj.T + ")"
	}
	bset := func(p *preCall, obj Val, text string) {
		fc := p.fc()
		nv := fc.freshVal(obj.Typ, "builder")
		fc.B.Assert(implies(p.reach, eq("(builder_text "+nv.T+")", text)))
		fc.store(p.st, p.args[0], nv)
	}
	regW("(*strings.Builder).WriteString", func(p *preCall) Val {
		obj, cur := bget(p)
		bset(p, obj, "(str.++ "+cur+" "+p.str(1)+")")
		return tup(Val{S: "Int", T: "(str.len " + p.str(1) + ")", Typ: types.Typ[types.Int]}, errNil())
	})
	regW("(*strings.Builder).WriteByte", func(p *preCall) Val {
		obj, cur := bget(p)
		bset(p, obj, "(str.++ "+cur+" (str.from_code "+p.args[1].T+"))")
		return errNil()
	})
	reg("(*strings.Builder).String", func(p *preCall) Val {
		_, cur := bget(p)
		return strVal(cur)
	})
	// the zero Builder holds the empty text: asserted when a local Builder is first read (see builderZero)
	reg("(github.com/cometbft/cometbft/libs/bytes.HexBytes).String", func(p *preCall) Val {
		fc := p.fc()
		fc.B.DeclFun("hex_upper", []string{"String"}, "String")
		fc.B.DeclFun("unhex_upper", []string{"String"}, "String")
		t := "(hex_upper " + p.str(0) + ")"
		fc.B.Assert(and(eq("(unhex_upper "+t+")", p.str(0)), eq("(str.len "+t+")", "(* 2 (str.len "+p.str(0)+"))"), not("(str.contains "+t+" \"/\")")))
		return strVal(t)
	})
}

// reflect.TypeOf(x): identified by the dynamic type tag of x (nil for a nil interface)
func init() {
	reg("reflect.TypeOf", func(p *preCall) Val {
		x := p.args[0]
		if x.S != "Iface" {
			p.fc().unsupported("reflect.TypeOf of a non-interface value")
			return p.fr.freshResult(p.resT, "typeof")
		}
		return Val{S: "Iface", T: "(ite (= (i_tag " + x.T + ") 0) (mkI 0 0) (mkI 777777 (i_tag " + x.T + ")))", Typ: p.typ(0)}
	})
}

// ---- cometbft conversions and validations used by the tendermint light client's stateless validation
// (T-prelude: they do not modify their arguments; a converted signed header validates only if the proto it was
// converted from had both a header and a commit)
func init() {
	const cmt = "github.com/cometbft/cometbft/types"
	pureFresh := func(name string) {
		reg(name, func(p *preCall) Val {
			p.fc().trusted["T-prelude: cometbft "+shortFn(name)+" does not modify its arguments (result uninterpreted; a nil error comes with a non-nil pointer result)"] = true
			res := p.fr.freshResult(p.resT, "cmt")
			if len(res.Tuple) == 2 && res.Tuple[0].S == "Int" && isErrorType(res.Tuple[1].Typ) {
				if _, isPtr := res.Tuple[0].Typ.Underlying().(*types.Pointer); isPtr {
					p.fc().B.Assert(implies(p.reach, implies(eq(res.Tuple[1].T, "0"), not(eq(res.Tuple[0].T, "0")))))
				}
			}
			return res
		})
	}
	for _, n := range []string{cmt + ".ValidatorSetFromProto", "(*" + cmt + ".ValidatorSet).Hash", cmt + ".BlockIDFromProto",
		"github.com/cometbft/cometbft/light.ValidateTrustLevel", cmt + ".CommitFromProto", cmt + ".HeaderFromProto"} {
		pureFresh(n)
	}
	reg(cmt+".SignedHeaderFromProto", func(p *preCall) Val {
		fc := p.fc()
		res := p.fr.freshResult(p.resT, "signedheader")
		fc.trusted["T-prelude: cometbft SignedHeaderFromProto does not modify its argument; the converted value has a header / a commit iff the proto has"] = true
		if len(res.Tuple) != 2 || p.args[0].S != "Int" {
			return res
		}
		// a nil error comes with a non-nil result
		fc.B.Assert(implies(p.reach, implies(eq(res.Tuple[1].T, "0"), not(eq(res.Tuple[0].T, "0")))))
		pt, ok := p.args[0].Typ.Underlying().(*types.Pointer)
		if !ok {
			return res
		}
		proto := p.args[0]
		if proto.PBase == nil {
			proto.PBase = pt.Elem()
		}
		pv := fc.load(p.st, proto)
		_, fh, ok1 := fc.B.fieldOf(pt.Elem(), "Header")
		_, fcm, ok2 := fc.B.fieldOf(pt.Elem(), "Commit")
		rp := res.Tuple[0]
		rt, ok3 := rp.Typ.Underlying().(*types.Pointer)
		if !ok1 || !ok2 || !ok3 {
			return res
		}
		if rp.PBase == nil {
			rp.PBase = rt.Elem()
		}
		rv := fc.load(p.st, rp)
		fc.B.DeclFun("sh_header_nil", []string{rv.S}, "Bool")
		fc.B.DeclFun("sh_commit_nil", []string{rv.S}, "Bool")
		fc.B.Assert(implies(p.reach, and(
			eq("(sh_header_nil "+rv.T+")", eq("("+fh.sel+" "+pv.T+")", "0")),
			eq("(sh_commit_nil "+rv.T+")", eq("("+fcm.sel+" "+pv.T+")", "0")))))
		return res
	})
	reg("("+cmt+".SignedHeader).ValidateBasic", func(p *preCall) Val {
		fc := p.fc()
		e := fc.freshErr("shvalid")
		rv := p.args[0]
		fc.B.DeclFun("sh_header_nil", []string{rv.S}, "Bool")
		fc.B.DeclFun("sh_commit_nil", []string{rv.S}, "Bool")
		fc.B.Assert(implies(p.reach, implies(eq(e.T, "0"), and(not("(sh_header_nil "+rv.T+")"), not("(sh_commit_nil "+rv.T+")")))))
		return e
	})
}
