package main

import (
	"fmt"
	"go/token"
	"go/types"
	"sort"
	"strings"

	"golang.org/x/tools/go/ssa"
)

// ownedSlice: the backing array of this SSA slice value was created inside the function (so writing an
// element cannot be observed through a caller's slice). This is the ownership discipline of DESIGN §2.4.
func ownedSlice(v ssa.Value, depth int) bool {
	if depth > 4 {
		return false
	}
	switch x := v.(type) {
	case *ssa.MakeSlice:
		return true
	case *ssa.Slice:
		if _, ok := x.X.(*ssa.Alloc); ok {
			return true
		}
		return ownedSlice(x.X, depth+1)
	case *ssa.Call:
		if b, ok := x.Call.Value.(*ssa.Builtin); ok && b.Name() == "append" {
			// append(nil/owned, ...) allocates or extends an owned array; append(param, ...) may write into the
			// caller's spare capacity, which is invisible through the caller's (shorter) slice
			return true
		}
		if f := x.Call.StaticCallee(); f != nil {
			n := f.String()
			if strings.HasPrefix(n, "slices.Clone") || n == "strings.Split" || n == "bytes.Clone" || n == "strings.Fields" || n == "strings.SplitN" {
				return true
			}
		}
	case *ssa.UnOp:
		// a slice read from a field of a struct this function allocated, when every value stored into that
		// field is itself an owned slice (e.g. &T{F: make(...)} ... t.F[i] = v)
		if fa, ok := x.X.(*ssa.FieldAddr); ok && x.Op == token.MUL {
			if a, ok := fa.X.(*ssa.Alloc); ok && a.Referrers() != nil {
				stores := 0
				for _, r := range *a.Referrers() {
					fa2, ok := r.(*ssa.FieldAddr)
					if !ok || fa2.Field != fa.Field || fa2.Referrers() == nil {
						continue
					}
					for _, r2 := range *fa2.Referrers() {
						if st, ok := r2.(*ssa.Store); ok && st.Addr == fa2 {
							if !ownedSlice(st.Val, depth+1) {
								return false
							}
							stores++
						}
					}
				}
				return stores > 0
			}
		}
	case *ssa.Convert: // []byte(string)
		return true
	case *ssa.Phi:
		for _, e := range x.Edges {
			if !ownedSlice(e, depth+1) {
				return false
			}
		}
		return true
	}
	return false
}

// sliceElemWrite: `s[i] = v` on a slice *value*. Slices have value semantics in the model; the write is
// applied by re-binding the SSA slice value (and is only allowed on owned backing arrays).
func (fr *Frame) sliceElemWrite(st *ssa.Store, p Val, v Val, state *State) {
	fc := fr.fc
	base := p.Fn.Base
	if base == nil {
		fc.unsupported("element write through an untracked slice pointer in %s", fr.fn.Name())
		return
	}
	// the slice may live in a field of an object the contract lets this function modify (`modifies *x`): the
	// updated slice is then also written back to that field
	var home ssa.Value
	if !ownedSlice(base, 0) {
		if ld, ok := base.(*ssa.UnOp); ok && ld.Op == token.MUL {
			if prm, ok := rootValue(ld.X).(*ssa.Parameter); ok && fc.C != nil && fr.isTop {
				for _, m := range fc.C.Modifies {
					if m == "*"+prm.Name() {
						home = ld.X
					}
				}
			}
		}
		if home == nil {
			fc.unsupported("#own: %s writes an element of a slice it does not own (%s at %s)", fr.fn.Name(), base.Name(), posStr(fc.W, st.Pos()))
			return
		}
	}
	if len(p.PPath) > 0 {
		// the store went to a field of the element: the new element is the content of the materialised cell
		cell := Val{S: "Int", T: p.T, Typ: types.NewPointer(p.PBase), PBase: p.PBase}
		v = fc.load(state, cell)
	}
	cur := fr.get(base)
	idx := p.Fn.Data[1]
	var nt string
	if cur.S == "Bytes" {
		s := "(b_s " + cur.T + ")"
		nt = "(mkB false (str.++ (str.substr " + s + " 0 " + idx.T + ") (str.from_code " + v.T + ") (str.substr " + s + " (+ " + idx.T + " 1) (- (str.len " + s + ") (+ " + idx.T + " 1)))))"
	} else {
		nt = fmt.Sprintf("(mkS (s_nil %s) (s_len %s) (store (s_arr %s) %s %s))", cur.T, cur.T, cur.T, idx.T, v.T)
	}
	cur.T = fc.B.Define("slw_"+base.Name(), cur.S, nt)
	cur.VA = nil
	fr.addRebind(base, cur)
	if home != nil {
		fc.store(state, fr.get(home), cur)
	}
}

// appendSlices: deterministic model of append for non-byte slices: the result is a function of both
// operands with length/element axioms instantiated per application.
func (fr *Frame) appendSlices(a, bb Val, typ types.Type) Val {
	fc := fr.fc
	fn := "append_" + sanitize(a.S)
	fc.B.DeclFun(fn, []string{a.S, a.S}, a.S)
	t := "(" + fn + " " + a.T + " " + bb.T + ")"
	if n, ok := fc.B.inst2["append|"+t]; ok {
		return Val{S: a.S, T: n, Typ: typ}
	}
	n := fc.B.Fresh("appended", a.S)
	fc.B.Assert(eq(n, t))
	fc.B.inst2["append|"+t] = n
	la, lb := "(s_len "+a.T+")", "(s_len "+bb.T+")"
	fc.B.Assert(and(eq("(s_len "+n+")", "(+ "+la+" "+lb+")"),
		eq("(s_nil "+n+")", "(and (s_nil "+a.T+") (= "+lb+" 0))"),
		fmt.Sprintf("(forall ((i Int)) (! (=> (and (<= 0 i) (< i %s)) (= (select (s_arr %s) i) (select (s_arr %s) i))) :pattern ((select (s_arr %s) i))))", la, n, a.T, n),
		fmt.Sprintf("(forall ((i Int)) (! (=> (and (<= 0 i) (< i %s)) (= (select (s_arr %s) (+ %s i)) (select (s_arr %s) i))) :pattern ((select (s_arr %s) i))))", lb, n, la, bb.T, bb.T),
		// the same prefix fact without a pattern annotation, in the shape the contract language gives
		// "forall j int :: 0 <= j && j < len(a) ==> a[j] == r[j]": an instance of a lemma with this premise then
		// contains a formula the solver already knows (it need not re-derive a nested quantifier)
		fmt.Sprintf("(forall ((i Int)) (=> (and (<= 0 i) (< i %s)) (= (select (s_arr %s) i) (select (s_arr %s) i))))", la, a.T, n),
		implies(eq(lb, "1"), eq("(select (s_arr "+n+") "+la+")", "(select (s_arr "+bb.T+") 0)")),
		implies(eq(la, "0"), and(implies(eq(lb, "1"), eq("(select (s_arr "+n+") 0)", "(select (s_arr "+bb.T+") 0)")), implies(eq(lb, "2"), eq("(select (s_arr "+n+") 1)", "(select (s_arr "+bb.T+") 1)")))),
	))
	return Val{S: a.S, T: n, Typ: typ}
}

func init() {
	// slices.Clone on non-byte slices: value semantics make it the identity (the copy is what "owned" means)
	for _, n := range []string{"slices.Clone[[][]byte []byte]", "slices.Clone[[]string string]", "slices.Clone[[][]byte, []byte]", "slices.Clone[[]string, string]", "slices.Clone[[]byte, byte]"} {
		reg(n, func(p *preCall) Val { return p.args[0] })
	}
}

// pureResult: results of a contracted pure function as uninterpreted functions of its arguments AND of the
// state it can read (the worlds term and every heap term known at the call): two calls yield equal results
// only when arguments and state terms are identical.
func (fr *Frame) pureResult(resT types.Type, name string, args []Val, st *State) Val {
	fc := fr.fc
	var sorts, ts []string
	for _, a := range args {
		if a.S == "" || a.T == "" {
			return fr.freshResult(resT, "r_"+shortFn(name))
		}
		sorts = append(sorts, a.S)
		ts = append(ts, a.T)
	}
	tag := ""
	needState := false
	for _, a := range args {
		if a.S == "Ctx" || a.S == "View" {
			needState = true
		}
		if a.Typ != nil {
			switch a.Typ.Underlying().(type) {
			case *types.Pointer, *types.Map:
				needState = true
			}
		}
	}
	if needState {
		sorts = append(sorts, "(Array Int WorldS)")
		ts = append(ts, st.worlds)
		// heaps the callee can read: objects behind pointer/map arguments, and (two levels) behind their fields
		seen := map[string]bool{}
		var visit func(t types.Type, depth int)
		visit = func(t types.Type, depth int) {
			if t == nil || depth > 2 {
				return
			}
			switch u := types.Unalias(t).Underlying().(type) {
			case *types.Pointer:
				seen[fc.B.SortOf(u.Elem())] = true
				visit(u.Elem(), depth)
			case *types.Map:
				seen[fc.mapSort(u)] = true
			case *types.Struct:
				for i := 0; i < u.NumFields(); i++ {
					switch u.Field(i).Type().Underlying().(type) {
					case *types.Pointer, *types.Map:
						visit(u.Field(i).Type(), depth+1)
					}
				}
			}
		}
		for _, a := range args {
			visit(a.Typ, 0)
		}
		var hs []string
		for h := range seen {
			hs = append(hs, h)
		}
		sort.Strings(hs)
		for _, h := range hs {
			sorts = append(sorts, "(Array Int "+h+")")
			ts = append(ts, fc.heapOf(st, h))
			tag += "_" + sanitize(h)
		}
		if len(tag) > 60 {
			tag = fmt.Sprintf("_h%x", hashStr(tag))
		}
	}
	mk := func(t types.Type, i int) Val {
		fn := fmt.Sprintf("pure_%s_%d%s", sanitize(shortFn(name)), i, tag)
		v := fc.mkVal(t, "")
		fc.B.DeclFun(fn, sorts, v.S)
		v.T = app(fn, ts...)
		if !strings.Contains(v.T, "qv!") {
			fc.assumeWF(v, "true")
		}
		return v
	}
	if tup, ok := resT.(*types.Tuple); ok {
		if tup.Len() == 0 {
			return Val{Typ: resT}
		}
		if tup.Len() == 1 {
			return mk(tup.At(0).Type(), 0)
		}
		var vs []Val
		for i := 0; i < tup.Len(); i++ {
			vs = append(vs, mk(tup.At(i).Type(), i))
		}
		return Val{Tuple: vs, Typ: resT}
	}
	return mk(resT, 0)
}

// onlyVarargUse: the interface value is only stored into call-site argument arrays (fmt/Wrapf arguments).
func onlyVarargUse(mi *ssa.MakeInterface) bool {
	refs := mi.Referrers()
	if refs == nil || len(*refs) == 0 {
		return false
	}
	for _, r := range *refs {
		st, ok := r.(*ssa.Store)
		if !ok || st.Val != mi {
			if _, isDbg := r.(*ssa.DebugRef); isDbg {
				continue
			}
			return false
		}
		ia, ok := st.Addr.(*ssa.IndexAddr)
		if !ok {
			return false
		}
		al, ok := ia.X.(*ssa.Alloc)
		if !ok || al.Comment != "varargs" {
			return false
		}
	}
	return true
}

// BoxQuiet boxes without emitting the unbox(box(v)) == v instance.
func (b *SMT) BoxQuiet(t types.Type, v string) string {
	s := b.SortOf(t)
	if _, isPtr := t.Underlying().(*types.Pointer); isPtr {
		return v
	}
	if s == "Int" {
		return v
	}
	fn := "box_" + sanitize(s)
	un := "unbox_" + sanitize(s)
	b.DeclFun(fn, []string{s}, "Int")
	b.DeclFun(un, []string{"Int"}, s)
	return app(fn, v)
}

func init() {
	contains := func(p *preCall) Val {
		fc := p.fc()
		a, x := p.args[0], p.args[1]
		b := fc.B.Fresh("contains", "Bool")
		fc.B.Assert(fmt.Sprintf("(= %s (exists ((j Int)) (and (<= 0 j) (< j (s_len %s)) (= (select (s_arr %s) j) %s))))", b, a.T, a.T, x.T))
		return boolVal(b)
	}
	for _, n := range []string{"slices.Contains[[]string string]", "slices.Contains[[]string, string]"} {
		reg(n, contains)
	}
}


func init() {
	// slices.Sort on an owned []string: the SSA slice value is re-bound to a sorted permutation
	sortStrings := func(p *preCall) Val {
		fc := p.fc()
		if p.cc == nil || p.spec {
			fc.unsupported("slices.Sort in a specification context")
			return Val{}
		}
		base := p.cc.Args[0]
		if !ownedSlice(base, 0) {
			fc.unsupported("#own: slices.Sort on a slice not owned by %s", p.fr.fn.Name())
			return Val{}
		}
		a := p.args[0]
		srt := fc.B.Fresh("sorted", a.S)
		fc.B.Assert(and(eq("(s_len "+srt+")", "(s_len "+a.T+")"), eq("(s_nil "+srt+")", "(s_nil "+a.T+")"),
			fmt.Sprintf("(forall ((i Int) (j Int)) (! (=> (and (<= 0 i) (< i j) (< j (s_len %s))) (str.<= (select (s_arr %s) i) (select (s_arr %s) j))) :pattern ((select (s_arr %s) i) (select (s_arr %s) j))))", srt, srt, srt, srt, srt),
			fmt.Sprintf("(forall ((i Int)) (! (=> (and (<= 0 i) (< i (s_len %s))) (exists ((j Int)) (and (<= 0 j) (< j (s_len %s)) (= (select (s_arr %s) i) (select (s_arr %s) j))))) :pattern ((select (s_arr %s) i))))", srt, a.T, srt, a.T, srt),
			fmt.Sprintf("(forall ((j Int)) (! (=> (and (<= 0 j) (< j (s_len %s))) (exists ((i Int)) (and (<= 0 i) (< i (s_len %s)) (= (select (s_arr %s) i) (select (s_arr %s) j))))) :pattern ((select (s_arr %s) j))))", a.T, srt, srt, a.T, a.T),
		))
		nv := a
		nv.T = srt
		nv.VA = nil
		p.fr.addRebind(base, nv)
		fc.trusted["slices.Sort: result is a sorted (byte-wise) rearrangement with the same elements"] = true
		return Val{}
	}
	for _, n := range []string{"slices.Sort[[]string, string]", "slices.Sort[[]string string]"} {
		reg(n, sortStrings)
	}
}
