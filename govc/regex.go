package main

import (
	"fmt"
	"go/ast"
	"go/constant"
	"go/token"
	"go/types"
	"regexp/syntax"
	"strings"
)

// regexToSMT translates a Go (RE2) regular expression used with MatchString into an SMT-LIB RegLan term
// describing the set of *whole strings* that MatchString accepts (unanchored sides get re.all).
// Supported: literals, classes, ., anchors at the two ends of the top-level concatenation, * + ? {m,n},
// concatenation, alternation, groups. Returns ok=false for anything else.
func regexToSMT(pat string) (string, bool) {
	re, err := syntax.Parse(pat, syntax.Perl)
	if err != nil {
		return "", false
	}
	// no Simplify(): it expands {m,n} into nested optionals, which the solvers handle far worse than re.loop
	subs := []*syntax.Regexp{re}
	if re.Op == syntax.OpConcat {
		subs = re.Sub
	}
	begin, end := false, false
	if len(subs) > 0 && subs[0].Op == syntax.OpBeginText {
		begin = true
		subs = subs[1:]
	}
	if len(subs) > 0 && subs[len(subs)-1].Op == syntax.OpEndText {
		end = true
		subs = subs[:len(subs)-1]
	}
	var parts []string
	if !begin {
		parts = append(parts, "re.all")
	}
	for _, s := range subs {
		t, ok := reNode(s)
		if !ok {
			return "", false
		}
		parts = append(parts, t)
	}
	if !end {
		parts = append(parts, "re.all")
	}
	return reConcat(parts), true
}

func reConcat(parts []string) string {
	switch len(parts) {
	case 0:
		return `(str.to_re "")`
	case 1:
		return parts[0]
	}
	return "(re.++ " + strings.Join(parts, " ") + ")"
}

func reNode(r *syntax.Regexp) (string, bool) {
	switch r.Op {
	case syntax.OpEmptyMatch:
		return `(str.to_re "")`, true
	case syntax.OpLiteral:
		if r.Flags&syntax.FoldCase != 0 {
			return "", false
		}
		return "(str.to_re " + smtString(string(r.Rune)) + ")", true
	case syntax.OpCharClass:
		var alts []string
		for i := 0; i+1 < len(r.Rune); i += 2 {
			lo, hi := r.Rune[i], r.Rune[i+1]
			if hi > 0xff {
				hi = 0x2ffff // SMT-LIB maximum code point: over-approximates "any further character"
			}
			alts = append(alts, fmt.Sprintf("(re.range %s %s)", smtChar(lo), smtChar(hi)))
		}
		if len(alts) == 0 {
			return "re.none", true
		}
		if len(alts) == 1 {
			return alts[0], true
		}
		return "(re.union " + strings.Join(alts, " ") + ")", true
	case syntax.OpAnyChar:
		return "re.allchar", true
	case syntax.OpAnyCharNotNL:
		return `(re.diff re.allchar (str.to_re "\u{a}"))`, true
	case syntax.OpCapture:
		return reNode(r.Sub[0])
	case syntax.OpStar:
		t, ok := reNode(r.Sub[0])
		return "(re.* " + t + ")", ok
	case syntax.OpPlus:
		t, ok := reNode(r.Sub[0])
		return "(re.+ " + t + ")", ok
	case syntax.OpQuest:
		t, ok := reNode(r.Sub[0])
		return "(re.opt " + t + ")", ok
	case syntax.OpRepeat:
		t, ok := reNode(r.Sub[0])
		if !ok {
			return "", false
		}
		if r.Max < 0 {
			return fmt.Sprintf("(re.++ ((_ re.loop %d %d) %s) (re.* %s))", r.Min, r.Min, t, t), true
		}
		return fmt.Sprintf("((_ re.loop %d %d) %s)", r.Min, r.Max, t), true
	case syntax.OpConcat:
		var ps []string
		for _, s := range r.Sub {
			t, ok := reNode(s)
			if !ok {
				return "", false
			}
			ps = append(ps, t)
		}
		return reConcat(ps), true
	case syntax.OpAlternate:
		var ps []string
		for _, s := range r.Sub {
			t, ok := reNode(s)
			if !ok {
				return "", false
			}
			ps = append(ps, t)
		}
		return "(re.union " + strings.Join(ps, " ") + ")", true
	}
	return "", false
}

func smtChar(r rune) string {
	if r >= 0x20 && r < 0x7f && r != '"' && r != '\\' {
		return "\"" + string(r) + "\""
	}
	return fmt.Sprintf("\"\\u{%x}\"", r)
}

// globalRegexLiteral: for `var X = regexp.MustCompile(<lit>).MatchString` returns the literal.
func (w *World) globalRegexLiteral(pkgPath, name string) (string, bool) {
	p := w.ByPath[pkgPath]
	if p == nil {
		return "", false
	}
	for _, f := range p.Syntax {
		for _, d := range f.Decls {
			gd, ok := d.(*ast.GenDecl)
			if !ok || gd.Tok != token.VAR {
				continue
			}
			for _, sp := range gd.Specs {
				vs := sp.(*ast.ValueSpec)
				for i, n := range vs.Names {
					if n.Name != name || i >= len(vs.Values) {
						continue
					}
					sel, ok := vs.Values[i].(*ast.SelectorExpr)
					if !ok || sel.Sel.Name != "MatchString" {
						return "", false
					}
					call, ok := sel.X.(*ast.CallExpr)
					if !ok || len(call.Args) != 1 {
						return "", false
					}
					fsel, ok := call.Fun.(*ast.SelectorExpr)
					if !ok || fsel.Sel.Name != "MustCompile" {
						return "", false
					}
					tv, ok := p.TypesInfo.Types[call.Args[0]]
					if !ok || tv.Value == nil || tv.Value.Kind() != constant.String {
						return "", false
					}
					return constant.StringVal(tv.Value), true
				}
			}
		}
	}
	return "", false
}

// globalFnCall: a call through a package-level function variable. Such variables are assumed never to be
// reassigned (census-checkable); `regexp.MustCompile(lit).MatchString` becomes an SMT regular-expression
// membership, anything else a deterministic uninterpreted function of the arguments.
func (fr *Frame) globalFnCall(qual string, args []Val, resT types.Type) Val {
	fc := fr.fc
	i := strings.LastIndex(qual, ".")
	pk, name := qual[:i], qual[i+1:]
	if lit, ok := fc.W.globalRegexLiteral(pk, name); ok && len(args) == 1 {
		if re, ok := regexToSMT(lit); ok {
			s, _ := asString(args[0])
			fc.trusted["regexp "+qual+" = "+lit+" translated to an SMT regular expression (RE2 subset)"] = true
			return boolVal("(str.in_re " + s + " " + re + ")")
		}
	}
	fn := "gfn_" + sanitize(shortPkg(pk)) + "_" + name
	var sorts, ts []string
	for _, a := range args {
		sorts = append(sorts, a.S)
		ts = append(ts, a.T)
	}
	rt := resT
	if tup, ok := resT.(*types.Tuple); ok {
		if tup.Len() != 1 {
			fc.unsupported("global function variable %s with %d results", qual, tup.Len())
			return fr.freshResult(resT, "gfn")
		}
		rt = tup.At(0).Type()
	}
	fc.B.DeclFun(fn, sorts, fc.B.SortOf(rt))
	fc.trusted["function variable "+qual+" treated as a pure, never reassigned function"] = true
	return fc.mkVal(rt, app(fn, ts...))
}
