package main

import (
	"fmt"
	"go/ast"
	"path/filepath"
	"regexp"
	"sort"
	"strconv"
	"strings"
)

type Clause struct {
	Label string
	Src   string
	E     Expr
	Loop  int // for invariants
	// Induct: for a lemma, the name of the int variable the lemma is proved by induction on (base 0, step k -> k+1);
	// the lemma is then assumed for all k >= 0
	Induct string
}

type Let struct {
	Name string
	E    Expr
}

type Contract struct {
	Target   string // fully qualified ("modules/core/04-channel/keeper.(*Keeper).RecvPacket")
	Iface    bool   // interface method contract
	PkgPath  string // full package path of the declaring package
	Lets     []Let
	Requires []Clause
	Ensures  []Clause
	Lemmas   []Clause // intermediate facts over the parameters: each is proved (obligation #lemma.<name>) and then assumed by every later obligation
	// Uses: explicit lemma applications `use #<loop> <lemma>(args)` (at the back edges of that loop; names mean the
	// values at the end of the body, prev_<name> the values at the loop head) and `use return <lemma>(args)` (Loop 0,
	// at function exit). The premises of the instance are an obligation, its conclusion is then assumed.
	Uses     []Clause
	Invs     map[int][]Clause
	Modifies []string
	Trusted  string
	Flags    map[string]bool
	File     string
	Line     int
}

type SpecFunc struct {
	Name    string
	PkgPath string
	Params  []QVar
	Ret     string
	Body    Expr // nil => uninterpreted
	Axioms  []Clause
}

type GhostVar struct {
	Name, Type string
}

type ContractSet struct {
	ByTarget map[string]*Contract
	Specs    map[string]*SpecFunc // by name (global namespace)
	Ghosts   map[string]*GhostVar
	Impls    map[string]string // interface qualified name -> concrete type qualified name
	Files    []string
	Errors   []string
}

// extraImports: package path -> import name -> package path, from `//@ import` directives
var extraImports = map[string]map[string]string{}

var clauseKW = map[string]bool{"use": true, "lemma": true, "let": true, "requires": true, "ensures": true, "invariant": true, "modifies": true,
	"trusted": true, "pure": true, "inline": true, "opaque": true, "nopanic": true, "decreases": true, "axiom": true, "ownership": true, "decfull": true, "splittail": true, "splitext": true, "splitrec": true, "abstract": true}

var labelRe = regexp.MustCompile(`^([A-Za-z_][A-Za-z0-9_]*):\s+(.*)$`)

// ParseContracts scans all zz_verif_contracts.go files of the loaded packages.
func (w *World) ParseContracts(extra []string) {
	cs := &ContractSet{ByTarget: map[string]*Contract{}, Specs: map[string]*SpecFunc{}, Ghosts: map[string]*GhostVar{}, Impls: map[string]string{}}
	w.Contracts = cs
	for _, p := range w.Pkgs {
		for i, f := range p.Syntax {
			name := ""
			if i < len(p.CompiledGoFiles) {
				name = p.CompiledGoFiles[i]
			}
			if !strings.HasSuffix(name, "zz_verif_contracts.go") {
				continue
			}
			cs.Files = append(cs.Files, name)
			cs.parseFile(w, p.PkgPath, name, f)
		}
	}
	sort.Strings(cs.Files)
}

func (cs *ContractSet) errf(file string, line int, f string, a ...any) {
	cs.Errors = append(cs.Errors, fmt.Sprintf("%s:%d: %s", filepath.Base(filepath.Dir(file))+"/"+filepath.Base(file), line, fmt.Sprintf(f, a...)))
}

func (cs *ContractSet) parseFile(w *World, pkgPath, file string, f *ast.File) {
	type line struct {
		s string
		n int
	}
	var lines []line
	for _, cg := range f.Comments {
		for _, c := range cg.List {
			t := c.Text
			if !strings.HasPrefix(t, "//@") {
				continue
			}
			lines = append(lines, line{strings.TrimSpace(t[3:]), w.Fset.Position(c.Pos()).Line})
		}
	}
	// group into logical clauses
	type lc struct {
		kw, rest string
		n        int
	}
	var cl []lc
	for _, l := range lines {
		if l.s == "" {
			continue
		}
		first := l.s
		rest := ""
		if i := strings.IndexAny(l.s, " \t"); i >= 0 {
			first, rest = l.s[:i], strings.TrimSpace(l.s[i+1:])
		}
		if clauseKW[first] || first == "contract" || first == "spec" || first == "ghost" || first == "impl" || first == "import" {
			cl = append(cl, lc{first, rest, l.n})
		} else if len(cl) > 0 {
			cl[len(cl)-1].rest += " " + l.s
		} else {
			cs.errf(file, l.n, "stray contract line %q", l.s)
		}
	}
	var cur *Contract
	var curSpec *SpecFunc
	short := shortPkg(pkgPath)
	for _, c := range cl {
		switch c.kw {
		case "contract":
			curSpec = nil
			t := c.rest
			isIface := false
			if strings.HasPrefix(t, "interface ") {
				isIface = true
				t = strings.TrimSpace(t[len("interface "):])
			}
			full := t
			if !strings.Contains(t, "/") { // relative to this package
				full = short + "." + t
			}
			cur = &Contract{Target: full, Iface: isIface, PkgPath: pkgPath, Invs: map[int][]Clause{}, Flags: map[string]bool{}, File: file, Line: c.n}
			if _, dup := cs.ByTarget[full]; dup {
				cs.errf(file, c.n, "duplicate contract for %s", full)
			}
			cs.ByTarget[full] = cur
		case "spec":
			cur = nil
			sf, err := parseSpecFunc(c.rest)
			if err != nil {
				cs.errf(file, c.n, "%v", err)
				continue
			}
			sf.PkgPath = pkgPath
			if _, dup := cs.Specs[sf.Name]; dup {
				cs.errf(file, c.n, "duplicate spec func %s", sf.Name)
			}
			cs.Specs[sf.Name] = sf
			curSpec = sf
		case "ghost":
			fs := strings.Fields(c.rest)
			if len(fs) == 3 && fs[0] == "var" {
				cs.Ghosts[fs[1]] = &GhostVar{fs[1], fs[2]}
			} else {
				cs.errf(file, c.n, "bad ghost decl %q", c.rest)
			}
		case "import":
			// extra import for contract expressions of this package: `//@ import host modules/core/24-host`
			fs := strings.Fields(c.rest)
			if len(fs) != 2 {
				cs.errf(file, c.n, "bad import directive")
				continue
			}
			full := fs[1]
			for path := range w.ByPath {
				if shortPkg(path) == fs[1] {
					full = path
				}
			}
			if extraImports[pkgPath] == nil {
				extraImports[pkgPath] = map[string]string{}
			}
			extraImports[pkgPath][fs[0]] = full
		case "impl":
			parts := strings.Split(c.rest, "=")
			if len(parts) != 2 {
				cs.errf(file, c.n, "bad impl decl")
				continue
			}
			cs.Impls[strings.TrimSpace(parts[0])] = strings.TrimSpace(parts[1])
		case "axiom":
			if curSpec == nil {
				cs.errf(file, c.n, "axiom outside spec func")
				continue
			}
			e, err := ParseExpr(c.rest)
			if err != nil {
				cs.errf(file, c.n, "%v", err)
				continue
			}
			curSpec.Axioms = append(curSpec.Axioms, Clause{Src: c.rest, E: e})
		default:
			if cur == nil {
				cs.errf(file, c.n, "clause %q outside a contract", c.kw)
				continue
			}
			switch c.kw {
			case "let":
				i := strings.Index(c.rest, "=")
				if i < 0 {
					cs.errf(file, c.n, "bad let")
					continue
				}
				e, err := ParseExpr(c.rest[i+1:])
				if err != nil {
					cs.errf(file, c.n, "%v", err)
					continue
				}
				cur.Lets = append(cur.Lets, Let{strings.TrimSpace(c.rest[:i]), e})
			case "requires", "ensures", "lemma":
				src := c.rest
				label := ""
				if m := labelRe.FindStringSubmatch(src); m != nil && !strings.HasPrefix(m[2], ":") {
					label, src = m[1], m[2]
				}
				induct := ""
				if c.kw == "lemma" && strings.HasPrefix(src, "induct ") {
					if i := strings.Index(src, "::"); i > 0 {
						induct = strings.TrimSpace(src[len("induct "):i])
						src = strings.TrimSpace(src[i+2:])
					}
				}
				e, err := ParseExpr(src)
				if err != nil {
					cs.errf(file, c.n, "%v", err)
					continue
				}
				cc := Clause{Label: label, Src: src, E: e, Induct: induct}
				if c.kw == "requires" {
					cur.Requires = append(cur.Requires, cc)
				} else if c.kw == "lemma" {
					cur.Lemmas = append(cur.Lemmas, cc)
				} else {
					cur.Ensures = append(cur.Ensures, cc)
				}
			case "invariant":
				src := c.rest
				if !strings.HasPrefix(src, "#") {
					cs.errf(file, c.n, "invariant needs #n")
					continue
				}
				sp := strings.IndexAny(src, " \t")
				n, err := strconv.Atoi(src[1:sp])
				if err != nil {
					cs.errf(file, c.n, "bad loop ordinal")
					continue
				}
				src = strings.TrimSpace(src[sp:])
				label := ""
				if m := labelRe.FindStringSubmatch(src); m != nil && !strings.HasPrefix(m[2], ":") {
					label, src = m[1], m[2]
				}
				e, err := ParseExpr(src)
				if err != nil {
					cs.errf(file, c.n, "%v", err)
					continue
				}
				cur.Invs[n] = append(cur.Invs[n], Clause{Label: label, Src: src, E: e, Loop: n})
			case "use":
				src := c.rest
				loop := 0
				if strings.HasPrefix(src, "#") {
					sp := strings.IndexAny(src, " \t")
					n, err := strconv.Atoi(src[1:sp])
					if err != nil {
						cs.errf(file, c.n, "bad loop ordinal")
						continue
					}
					loop = n
					src = strings.TrimSpace(src[sp:])
				} else if strings.HasPrefix(src, "return ") {
					src = strings.TrimSpace(src[len("return "):])
				} else {
					cs.errf(file, c.n, "use needs #n or return")
					continue
				}
				e, err := ParseExpr(src)
				if err != nil {
					cs.errf(file, c.n, "%v", err)
					continue
				}
				call, ok := e.(*ECall)
				if !ok {
					cs.errf(file, c.n, "use needs a lemma application")
					continue
				}
				id, ok := call.Fun.(*EIdent)
				if !ok {
					cs.errf(file, c.n, "use needs a lemma name")
					continue
				}
				cur.Uses = append(cur.Uses, Clause{Label: id.Name, Src: src, E: e, Loop: loop})
			case "modifies":
				for _, m := range strings.Split(c.rest, ",") {
					cur.Modifies = append(cur.Modifies, strings.TrimSpace(m))
				}
			case "trusted":
				cur.Trusted = c.rest
				if cur.Trusted == "" {
					cur.Trusted = "trusted"
				}
			default:
				cur.Flags[c.kw] = true
			}
		}
	}
}

var specRe = regexp.MustCompile(`^func\s+([A-Za-z_][A-Za-z0-9_]*)\s*\(([^)]*)\)\s*([A-Za-z_\[\]\.\*0-9]+)\s*(=\s*(.*))?$`)

func parseSpecFunc(s string) (*SpecFunc, error) {
	m := specRe.FindStringSubmatch(strings.TrimSpace(s))
	if m == nil {
		return nil, fmt.Errorf("bad spec func %q", s)
	}
	sf := &SpecFunc{Name: m[1], Ret: m[3]}
	if strings.TrimSpace(m[2]) != "" {
		for _, p := range strings.Split(m[2], ",") {
			fs := strings.Fields(p)
			if len(fs) != 2 {
				return nil, fmt.Errorf("bad spec param %q", p)
			}
			sf.Params = append(sf.Params, QVar{fs[0], fs[1]})
		}
	}
	if m[5] != "" {
		e, err := ParseExpr(m[5])
		if err != nil {
			return nil, err
		}
		sf.Body = e
	}
	return sf, nil
}
