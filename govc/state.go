package main

import (
	"fmt"
	"go/types"
	"sort"
	"strings"

	"golang.org/x/tools/go/ssa"
)

// Val is a symbolic Go value.
type Val struct {
	S   string     // SMT sort
	T   string     // SMT term
	Typ types.Type // Go type, when known
	// pointers: the heap object they point into and the interior path
	PBase types.Type
	PPath []pathElem
	// tuples (multi-result calls)
	Tuple []Val
	// statically known function value
	Fn *FnVal
	// call-site argument array tracked statically (varargs / slice literals)
	VA    *varArr
	VAIdx int
}

type varArr struct {
	elem types.Type
	vals []Val
}

type pathElem struct {
	field int // index into structInfo.fields, or -1
	info  *structInfo
	index string // index term when field == -1
	elem  types.Type
}

type FnVal struct {
	Fn       *ssa.Function
	Bindings []Val
	Special  string // "writeFn"
	Data     []Val
	Base     ssa.Value // elemptr: the SSA slice value the element belongs to
}

// State is the mutable program state at a program point.
type State struct {
	worlds string            // (Array Int WorldS): branch id -> world
	heaps  map[string]string // pointee sort -> (Array Int sort)
	ghosts map[string]string
	// refs allocated so far on this path (for aliveness reasoning)
	allocs []string
	// ghost call log: counter per callback key
	calls map[string]string
}

func (s State) clone() State {
	n := State{worlds: s.worlds, heaps: map[string]string{}, ghosts: map[string]string{}, calls: map[string]string{}}
	for k, v := range s.heaps {
		n.heaps[k] = v
	}
	for k, v := range s.ghosts {
		n.ghosts[k] = v
	}
	for k, v := range s.calls {
		n.calls[k] = v
	}
	n.allocs = append([]string(nil), s.allocs...)
	return n
}

// Obligation: one SMT query.
type Obl struct {
	Name   string
	Kind   string // body, safety, lemma, census, cover, vacuity
	Script string // full script incl. negated goal
	Expect string // "unsat" (default) or "sat"
	Src    string
	Fn     string
	// inputs to report from a model
	ModelVars []ModelVar
}

type ModelVar struct{ Name, Term, Sort string }

// FnCtx: verification of one top-level function.
type FnCtx struct {
	useN int // number of explicit lemma applications so far
	W    *World
	B    *SMT
	Top  *ssa.Function
	C    *Contract
	Mode string // "contract" or "safety"

	obls     []*Obl
	opaque   map[string]bool
	inlined  map[string]bool
	dropped  map[string]bool
	usedCtr  map[string]bool
	trusted  map[string]bool
	unsup    []string
	heapInit map[string]string
	allocN   int
	modelVars []ModelVar
	panicSites []panicSite
	safetySites []safetySite
	pending []pendingObl
	callN map[string]int
	lets map[string]Val
	inSpec int // >0 while a Go function is being evaluated inside a contract expression
	mapRanges []mapRangeInfo
}

// mapRangeInfo: ghost enumeration of a map's key set for a `range` loop (k-th map range of the function:
// invariants call its parts mapseq<k>, mapn<k>, mappos<k>)
type mapRangeInfo struct {
	seq, n, ghost, keySort string
	keyType              types.Type
}

type panicSite struct {
	cond string
	desc string
	pos  string
}
type safetySite struct {
	cond string // reach && violation
	kind string
	pos  string
}

func (fc *FnCtx) unsupported(f string, a ...any) {
	fc.unsup = append(fc.unsup, fmt.Sprintf(f, a...))
}

func (fc *FnCtx) heapOf(st *State, sortName string) string {
	if h, ok := st.heaps[sortName]; ok {
		return h
	}
	// lazily declare the initial heap; it is the same constant for every state that never wrote it
	if h, ok := fc.heapInit[sortName]; ok {
		return h
	}
	name := "H0_" + sanitize(sortName)
	fc.B.Raw(fmt.Sprintf("(declare-const %s (Array Int %s))", name, sortName))
	fc.heapInit[sortName] = name
	return name
}

func (fc *FnCtx) setHeap(st *State, sortName, term string) {
	st.heaps[sortName] = term
}

// mergeStates merges predecessor states under edge conditions.
func (fc *FnCtx) mergeStates(conds []string, sts []State, tag string) State {
	if len(sts) == 1 {
		return sts[0].clone()
	}
	out := sts[0].clone()
	// worlds
	out.worlds = fc.mergeTerm(conds, func(i int) string { return sts[i].worlds }, "(Array Int WorldS)", "W_"+tag)
	keys := map[string]bool{}
	for _, s := range sts {
		for k := range s.heaps {
			keys[k] = true
		}
	}
	var ks []string
	for k := range keys {
		ks = append(ks, k)
	}
	sort.Strings(ks)
	for _, k := range ks {
		out.heaps[k] = fc.mergeTerm(conds, func(i int) string { s := sts[i]; return fc.heapOf(&s, k) }, "(Array Int "+k+")", "H_"+tag)
	}
	gk := map[string]bool{}
	for _, s := range sts {
		for k := range s.ghosts {
			gk[k] = true
		}
	}
	for k := range gk {
		k := k
		out.ghosts[k] = fc.mergeTerm(conds, func(i int) string {
			if v, ok := sts[i].ghosts[k]; ok {
				return v
			}
			if strings.HasPrefix(k, "#") {
				return "0" // engine-internal ghost (map range position) before its loop
			}
			init := "ghost0_" + k
			if !fc.B.declared["ghost:"+k] {
				fc.B.declared["ghost:"+k] = true
				fc.B.Raw(fmt.Sprintf("(declare-const %s %s)", init, fc.ghostSort(k)))
			}
			return init
		}, fc.ghostSort(k), "G_"+tag)
	}
	ck := map[string]bool{}
	for _, s := range sts {
		for k := range s.calls {
			ck[k] = true
		}
	}
	for k := range ck {
		k := k
		out.calls[k] = fc.mergeTerm(conds, func(i int) string {
			if v, ok := sts[i].calls[k]; ok {
				return v
			}
			return "0"
		}, "Int", "N_"+tag)
	}
	// allocs: union
	seen := map[string]bool{}
	out.allocs = nil
	for _, s := range sts {
		for _, a := range s.allocs {
			if !seen[a] {
				seen[a] = true
				out.allocs = append(out.allocs, a)
			}
		}
	}
	return out
}

func (fc *FnCtx) ghostSort(name string) string {
	if g := fc.W.Contracts.Ghosts[name]; g != nil {
		return fc.specSort(g.Type)
	}
	return "Int"
}

func (fc *FnCtx) mergeTerm(conds []string, get func(int) string, sortName, tag string) string {
	first := get(0)
	same := true
	for i := 1; i < len(conds); i++ {
		if get(i) != first {
			same = false
		}
	}
	if same {
		return first
	}
	// ite chain (last is default)
	t := get(len(conds) - 1)
	for i := len(conds) - 2; i >= 0; i-- {
		t = ite(conds[i], get(i), t)
	}
	if len(t) > 200 {
		return fc.B.Define(tag, sortName, t)
	}
	return t
}

// specSort maps a type name used in spec declarations to an SMT sort.
func (fc *FnCtx) specSort(t string) string {
	switch t {
	case "int", "uint64", "int64":
		return "Int"
	case "bool":
		return "Bool"
	case "string", "bytes", "key":
		return "String"
	case "KV":
		return "KV"
	case "World":
		return "WorldS"
	case "Ledger":
		return "Ledger"
	case "Ctx":
		return "Ctx"
	case "error":
		return "Int"
	case "iface":
		return "Iface"
	}
	if strings.HasPrefix(t, "[]") {
		return "(Slice " + fc.specSort(t[2:]) + ")"
	}
	// Go type in some package: pkg.Type resolved lazily by caller
	return t
}
