package main

import (
	"flag"
	"fmt"
	"os"
	"sort"
	"strings"

	"golang.org/x/tools/go/ssa"
)

func loadDefault() *World {
	w, err := LoadWorld(repoDir(), []string{"./modules/..."}, nil)
	if err != nil {
		fmt.Fprintln(os.Stderr, "load failed:", err)
		os.Exit(2)
	}
	w.ParseContracts(nil)
	return w
}

func main() {
	// the repository needs go >= 1.26.5; the default go on PATH is older
	os.Setenv("PATH", "/opt/veriftools/go1.26.8/bin:"+os.Getenv("PATH"))
	os.Setenv("GOFLAGS", "-mod=mod")
	os.Setenv("GOPROXY", "off")
	os.Setenv("GOSUMDB", "off")
	os.Setenv("GOTOOLCHAIN", "local")
	if len(os.Args) < 2 {
		fmt.Println("usage: govc <dump|fn|check> ...")
		os.Exit(2)
	}
	switch os.Args[1] {
	case "dump":
		w := loadDefault()
		for _, q := range os.Args[2:] {
			fn, err := w.FindFunc(q)
			if err != nil {
				fmt.Println(err)
				continue
			}
			fn.WriteTo(os.Stdout)
		}
	case "fn":
		fs := flag.NewFlagSet("fn", flag.ExitOnError)
		timeout := fs.Int("t", 20, "timeout s")
		mode := fs.String("mode", "contract", "contract|safety")
		keep := fs.Bool("keep", false, "print scripts path")
		fs.Parse(os.Args[2:])
		w := loadDefault()
		for _, e := range w.Contracts.Errors {
			fmt.Println("CONTRACT ERROR:", e)
		}
		fail := false
		for _, q := range fs.Args() {
			fn, err := w.FindFunc(q)
			if err != nil {
				fmt.Println(err)
				fail = true
				continue
			}
			c := w.Contracts.ByTarget[QualName(fn)]
			if c == nil && *mode == "contract" {
				fmt.Println("no contract for", QualName(fn))
			}
			r := VerifyFunc(w, fn, c, *mode)
			res := SolveAll(r.Obls, *timeout, 6)
			printFnResult(r, res, *keep)
			for _, o := range r.Obls {
				if res[o.Name].Status != o.Expect {
					fail = true
				}
			}
		}
		if fail {
			os.Exit(1)
		}
	case "check":
		os.Exit(checkMain(os.Args[2:]))
	case "selftest":
		os.Exit(selftestMain(os.Args[2:]))
	case "funcs":
		w := loadDefault()
		var ks []string
		for k := range w.Funcs {
			if len(os.Args) < 3 || strings.Contains(k, os.Args[2]) {
				ks = append(ks, k)
			}
		}
		sort.Strings(ks)
		for _, k := range ks {
			fmt.Println(k)
		}
	default:
		fmt.Println("unknown command")
		os.Exit(2)
	}
}

func printFnResult(r *FnResult, res map[string]SolveResult, keep bool) {
	fmt.Printf("== %s (%d instrs)\n", r.Fn, r.Instrs)
	for _, o := range r.Obls {
		s := res[o.Name]
		mark := "ok  "
		if s.Status != o.Expect {
			mark = "FAIL"
		}
		fmt.Printf("  %s %-70s %-7s %-6s %5dms %7dB  %s\n", mark, strings.TrimPrefix(o.Name, r.Fn), s.Status, s.Solver, s.Ms, s.Bytes, trunc(o.Src, 80))
		if s.Status != o.Expect {
			if s.Model != "" {
				fmt.Println("      model:", trunc(strings.ReplaceAll(s.Model, "\n", " "), 600))
			}
			if s.Detail != "" {
				fmt.Println("      detail:", trunc(s.Detail, 300))
			}
		}
	}
	pr := func(h string, xs []string) {
		if len(xs) > 0 {
			fmt.Printf("  %s: %s\n", h, strings.Join(xs, "; "))
		}
	}
	pr("inlined", r.Inlined)
	pr("opaque", r.Opaque)
	pr("dropped", r.Dropped)
	pr("trusted", r.Trusted)
	pr("notes", r.Notes)
	pr("UNSUPPORTED", r.Unsup)
	pr("contracts used", r.UsedCtr)
	if keep {
		fmt.Println("  scripts in", workDir())
	}
}

func trunc(s string, n int) string {
	if len(s) > n {
		return s[:n] + "..."
	}
	return s
}

var _ = ssa.NaiveForm
