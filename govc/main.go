package main

import (
	"fmt"
	"os"
	"time"

	"golang.org/x/tools/go/packages"
	"golang.org/x/tools/go/ssa"
	"golang.org/x/tools/go/ssa/ssautil"
)

func main() {
	t0 := time.Now()
	cfg := &packages.Config{
		Mode:       packages.NeedName | packages.NeedFiles | packages.NeedCompiledGoFiles | packages.NeedImports | packages.NeedTypes | packages.NeedTypesSizes | packages.NeedSyntax | packages.NeedTypesInfo | packages.NeedModule,
		Dir:        "/repo",
		BuildFlags: []string{"-tags=verif"},
	}
	pkgs, err := packages.Load(cfg, os.Args[1:]...)
	if err != nil {
		panic(err)
	}
	fmt.Println("loaded", len(pkgs), time.Since(t0))
	n := 0
	for _, p := range pkgs {
		for _, e := range p.Errors {
			fmt.Println("ERR", p.PkgPath, e)
			n++
		}
	}
	prog, spkgs := ssautil.Packages(pkgs, ssa.InstantiateGenerics)
	prog.Build()
	fmt.Println("ssa", len(spkgs), time.Since(t0))
}
