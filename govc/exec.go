package main

import (
	"fmt"
	"go/constant"
	"go/token"
	"go/types"
	"math/big"
	"sort"
	"strconv"
	"strings"

	"golang.org/x/tools/go/ssa"
)

type retSite struct {
	cond string
	vals []Val
	st   State
}

type Frame struct {
	fc     *FnCtx
	fn     *ssa.Function
	vals   map[ssa.Value]Val
	depth  int
	cond   string
	rets   []retSite
	reach  map[int]string
	out    map[int]State
	edges  map[[2]int]string // (from block, to block) -> condition; multiple edges between same blocks are or-ed
	isTop  bool
	free   []Val
	defers []deferred
	names  map[string][]ssa.Value // debug names
	loopOrd map[int]int           // header block index -> ordinal
	entrySt State
	args   []Val
	mapPos string
	// in-place updates of slice values (element writes, sorting): visible only at program points dominated
	// by the update
	rebinds  []rebind
	curBlock *ssa.BasicBlock
	curIdx   int
}

type rebind struct {
	v     ssa.Value
	block *ssa.BasicBlock
	idx   int
	val   Val
}

func (fr *Frame) addRebind(v ssa.Value, val Val) {
	fr.rebinds = append(fr.rebinds, rebind{v: v, block: fr.curBlock, idx: fr.curIdx, val: val})
}

func (fr *Frame) applyRebinds(v ssa.Value, val Val) Val {
	best := -1
	for i, r := range fr.rebinds {
		if r.v != v || fr.curBlock == nil {
			continue
		}
		visible := (r.block == fr.curBlock && r.idx < fr.curIdx) || (r.block != fr.curBlock && r.block.Dominates(fr.curBlock))
		if !visible {
			continue
		}
		if best < 0 {
			best = i
			continue
		}
		b := fr.rebinds[best]
		// prefer the later update: same block -> larger index; otherwise the one dominated by the other
		if (r.block == b.block && r.idx > b.idx) || (r.block != b.block && b.block.Dominates(r.block)) {
			best = i
		}
	}
	if best >= 0 {
		return fr.rebinds[best].val
	}
	return val
}

type deferred struct {
	cond string
	call *ssa.CallCommon
	fr   *Frame
}

func pow2(n int) string {
	return new(big.Int).Lsh(big.NewInt(1), uint(n)).String()
}

func intBits(t types.Type) (bits int, signed bool, ok bool) {
	b, isB := t.Underlying().(*types.Basic)
	if !isB || b.Info()&types.IsInteger == 0 {
		return 0, false, false
	}
	switch b.Kind() {
	case types.Int8:
		return 8, true, true
	case types.Int16:
		return 16, true, true
	case types.Int32:
		return 32, true, true
	case types.Int64, types.Int, types.UntypedInt:
		return 64, true, true
	case types.Uint8:
		return 8, false, true
	case types.Uint16:
		return 16, false, true
	case types.Uint32:
		return 32, false, true
	case types.Uint64, types.Uint, types.Uintptr:
		return 64, false, true
	}
	return 64, true, true
}

func wrapInt(t types.Type, term string) string {
	bits, signed, ok := intBits(t)
	if !ok {
		return term
	}
	// the in-range case is spelled out (same value, but the solvers need not reason about mod to see it)
	if !signed {
		return "(let ((w!v " + term + ")) (ite (and (<= 0 w!v) (< w!v " + pow2(bits) + ")) w!v (mod w!v " + pow2(bits) + ")))"
	}
	h := pow2(bits - 1)
	return "(let ((w!v " + term + ")) (ite (and (<= (- " + h + ") w!v) (< w!v " + h + ")) w!v (- (mod (+ w!v " + h + ") " + pow2(bits) + ") " + h + ")))"
}

func rangeOf(t types.Type, term string) string {
	bits, signed, ok := intBits(t)
	if !ok {
		return "true"
	}
	if !signed {
		return "(and (<= 0 " + term + ") (< " + term + " " + pow2(bits) + "))"
	}
	h := pow2(bits - 1)
	return "(and (<= (- " + h + ") " + term + ") (< " + term + " " + h + "))"
}

// wf returns well-formedness facts for a value of Go type t.
func (fc *FnCtx) wf(t types.Type, term string, depth int) string {
	if t == nil {
		return "true"
	}
	t = types.Unalias(t)
	if isErrorType(t) {
		return "(>= " + term + " 0)"
	}
	s := fc.B.SortOf(t)
	switch s {
	case "Bytes":
		if arr, ok := t.Underlying().(*types.Array); ok {
			return and("(not (b_nil "+term+"))", eq("(str.len (b_s "+term+"))", strconv.FormatInt(arr.Len(), 10)))
		}
		// (no explicit length bound on strings: length facts make the string solvers case-split heavily;
		// omitting the bound only enlarges the input space)
		return "(=> (b_nil " + term + ") (= (b_s " + term + ") \"\"))"
	case "Ctx":
		return "true"
	case "Iface":
		// the nil interface has one representation
		base := "(and (>= (i_tag " + term + ") 0) (=> (= (i_tag " + term + ") 0) (= (i_pl " + term + ") 0)))"
		if impl := fc.closedImpl(t); impl != nil {
			// closed world (census-checked): a non-nil value of this interface has the declared dynamic type
			fc.trusted["closed-world: "+ifaceKey(t)+" is implemented only by "+impl.String()] = true
			return and(base, "(or (= (i_tag "+term+") 0) (= (i_tag "+term+") "+fc.B.Tag(impl)+"))")
		}
		return base
	}
	switch u := t.Underlying().(type) {
	case *types.Basic:
		if u.Info()&types.IsInteger != 0 {
			return rangeOf(t, term)
		}
	case *types.Slice:
		return and("(>= (s_len "+term+") 0)", "(< (s_len "+term+") 9223372036854775808)", "(=> (s_nil "+term+") (= (s_len "+term+") 0))")
	case *types.Array:
		return and(eq("(s_len "+term+")", strconv.FormatInt(u.Len(), 10)), "(not (s_nil "+term+"))")
	case *types.Pointer, *types.Map:
		return "(>= " + term + " 0)"
	case *types.Struct:
		if depth > 3 {
			return "true"
		}
		info := fc.B.structs[s]
		if info == nil {
			return "true"
		}
		var cs []string
		for _, f := range info.fields {
			cs = append(cs, fc.wf(f.typ, "("+f.sel+" "+term+")", depth+1))
		}
		return and(cs...)
	}
	return "true"
}

func (fc *FnCtx) assumeWF(v Val, cond string) {
	if v.Typ == nil {
		return
	}
	if len(v.Tuple) > 0 {
		for _, x := range v.Tuple {
			fc.assumeWF(x, cond)
		}
		return
	}
	w := fc.wf(v.Typ, v.T, 0)
	if w != "true" {
		// well-formedness of a value computed on a conditional path holds where that path is taken (an
		// unguarded assertion would silently exclude inputs for which the untaken path computes junk)
		if cond == "" || cond == "true" {
			fc.B.Assert(w)
		} else {
			fc.B.Assert(implies(cond, w))
		}
	}
	if _, ok := v.Typ.Underlying().(*types.Pointer); ok {
		_ = cond
	}
}

// zero value of a type
func (fc *FnCtx) zero(t types.Type) string {
	t = types.Unalias(t)
	s := fc.B.SortOf(t)
	switch s {
	case "Int":
		return "0"
	case "Bool":
		return "false"
	case "String":
		return "\"\""
	case "Bytes":
		if arr, ok := t.Underlying().(*types.Array); ok {
			z := fc.B.Fresh("zarr", "String")
			fc.B.Assert(fmt.Sprintf("(and (= (str.len %s) %d) (forall ((i Int)) (=> (and (<= 0 i) (< i %d)) (= (str.to_code (str.at %s i)) 0))))", z, arr.Len(), arr.Len(), z))
			return "(mkB false " + z + ")"
		}
		return "(mkB true \"\")"
	case "Iface":
		return "(mkI 0 0)"
	case "View":
		return "(mkV 0 0 \"\")"
	case "Ctx":
		return "(mkC 0 0)"
	case "(_ FloatingPoint 11 53)":
		return "(_ +zero 11 53)"
	}
	switch u := t.Underlying().(type) {
	case *types.Slice:
		es := fc.B.SortOf(u.Elem())
		// the nil slice: its backing array is irrelevant, so it is one declared constant per element sort rather
		// than a constant-array literal. (cvc5 1.0.3 answers "unsat" on satisfiable scripts in which constant
		// arrays are nested inside datatype values of other constant arrays - see wip/cvc5_wrong_unsat_min.smt2.txt -
		// and zero values of structs with slice fields were the only source of such nesting.)
		arr := "nilarr_" + sanitize(es)
		if !fc.B.declared["const:"+arr] {
			fc.B.declared["const:"+arr] = true
			fc.B.Raw(fmt.Sprintf("(declare-const %s (Array Int %s))", arr, es))
		}
		return fmt.Sprintf("(mkS true 0 %s)", arr)
	case *types.Array:
		es := fc.B.SortOf(u.Elem())
		return fmt.Sprintf("(mkS false %d ((as const (Array Int %s)) %s))", u.Len(), es, fc.zero(u.Elem()))
	case *types.Struct:
		info := fc.B.structs[s]
		if info == nil {
			return "0"
		}
		var as []string
		for _, f := range info.fields {
			as = append(as, fc.zero(f.typ))
		}
		return "(" + info.ctor + " " + strings.Join(as, " ") + ")"
	}
	return "0"
}

func (fc *FnCtx) mkVal(t types.Type, term string) Val {
	v := Val{S: fc.B.SortOf(t), T: term, Typ: t}
	if p, ok := types.Unalias(t).Underlying().(*types.Pointer); ok {
		v.PBase = p.Elem()
	}
	return v
}

func (fc *FnCtx) freshVal(t types.Type, name string) Val {
	v := fc.mkVal(t, "")
	v.T = fc.B.Fresh(name, v.S)
	fc.assumeWF(v, "true")
	return v
}

// ---- memory

func (fc *FnCtx) load(st *State, p Val) Val {
	if p.PBase == nil && p.Typ != nil {
		// a pointer value without a statically tracked location (read from a slice, a field, a call result):
		// it points to an object of its static element type
		if pt, ok := types.Unalias(p.Typ).Underlying().(*types.Pointer); ok {
			p.PBase = pt.Elem()
		}
	}
	if p.PBase == nil {
		fc.unsupported("load through pointer of unknown base: %s", p.T)
		return Val{S: "Int", T: "0"}
	}
	hs := fc.B.SortOf(p.PBase)
	cur := "(select " + fc.heapOf(st, hs) + " " + p.T + ")"
	ct := p.PBase
	for _, pe := range p.PPath {
		if pe.field >= 0 {
			f := pe.info.fields[pe.field]
			cur = "(" + f.sel + " " + cur + ")"
			ct = f.typ
		} else {
			if fc.B.SortOf(ct) == "Bytes" {
				cur = "(str.to_code (str.at (b_s " + cur + ") " + pe.index + "))"
			} else {
				cur = "(select (s_arr " + cur + ") " + pe.index + ")"
			}
			ct = pe.elem
		}
	}
	return fc.mkVal(ct, cur)
}

func (fc *FnCtx) store(st *State, p Val, v Val) {
	if p.PBase == nil && p.Typ != nil {
		if pt, ok := types.Unalias(p.Typ).Underlying().(*types.Pointer); ok {
			p.PBase = pt.Elem()
		}
	}
	if p.PBase == nil {
		fc.unsupported("store through pointer of unknown base: %s", p.T)
		return
	}
	hs := fc.B.SortOf(p.PBase)
	h := fc.heapOf(st, hs)
	var nv string
	if len(p.PPath) == 0 {
		nv = v.T
	} else {
		base := fc.B.Define("obj", hs, "(select "+h+" "+p.T+")")
		nv = fc.rebuild(base, p.PBase, p.PPath, v.T)
	}
	st.heaps[hs] = fc.B.Define("H", "(Array Int "+hs+")", "(store "+h+" "+p.T+" "+nv+")")
}

func (fc *FnCtx) rebuild(cur string, ct types.Type, path []pathElem, v string) string {
	if len(path) == 0 {
		return v
	}
	pe := path[0]
	if pe.field >= 0 {
		f := pe.info.fields[pe.field]
		inner := fc.rebuild("("+f.sel+" "+cur+")", f.typ, path[1:], v)
		return pe.info.update(cur, pe.field, inner)
	}
	if fc.B.SortOf(ct) == "Bytes" {
		if len(path) > 1 {
			fc.unsupported("nested path under byte array")
		}
		// replace one byte
		s := "(b_s " + cur + ")"
		ns := "(str.++ (str.substr " + s + " 0 " + pe.index + ") (str.from_code " + v + ") (str.substr " + s + " (+ " + pe.index + " 1) (- (str.len " + s + ") (+ " + pe.index + " 1))))"
		return "(mkB false " + ns + ")"
	}
	inner := fc.rebuild("(select (s_arr "+cur+") "+pe.index+")", pe.elem, path[1:], v)
	return "(mkS (s_nil " + cur + ") (s_len " + cur + ") (store (s_arr " + cur + ") " + pe.index + " " + inner + "))"
}

func (fc *FnCtx) alloc(st *State, t types.Type, name string) Val {
	fc.allocN++
	r := fc.B.Fresh("ref_"+name, "Int")
	var cs []string
	cs = append(cs, "(> "+r+" 0)", "(not (alive0 "+r+"))")
	for _, a := range st.allocs {
		cs = append(cs, "(not (= "+r+" "+a+"))")
	}
	fc.B.Assert(and(cs...))
	st.allocs = append(st.allocs, r)
	return Val{S: "Int", T: r, Typ: types.NewPointer(t), PBase: t}
}

// assumeAlive: a pointer obtained from the environment is nil, pre-existing, or one of our allocations
func (fc *FnCtx) assumeAlive(st *State, v Val) {
	if v.Typ == nil {
		return
	}
	switch v.Typ.Underlying().(type) {
	case *types.Pointer, *types.Map:
	default:
		return
	}
	cs := []string{"(= " + v.T + " 0)", "(alive0 " + v.T + ")"}
	for _, a := range st.allocs {
		cs = append(cs, "(= "+v.T+" "+a+")")
	}
	fc.B.Assert(or(cs...))
}

// ---- constants

func (fc *FnCtx) constVal(c *ssa.Const) Val {
	t := c.Type()
	s := fc.B.SortOf(t)
	if c.Value == nil {
		return fc.mkVal(t, fc.zero(t))
	}
	switch c.Value.Kind() {
	case constant.Bool:
		return fc.mkVal(t, strconv.FormatBool(constant.BoolVal(c.Value)))
	case constant.String:
		return fc.mkVal(t, smtString(constant.StringVal(c.Value)))
	case constant.Int:
		if s == "(_ FloatingPoint 11 53)" {
			return fc.mkVal(t, "((_ to_fp 11 53) RNE "+c.Value.ExactString()+".0)")
		}
		return fc.mkVal(t, intLit(c.Value.ExactString()))
	case constant.Float:
		if s == "(_ FloatingPoint 11 53)" {
			r, _ := new(big.Rat).SetString(c.Value.ExactString())
			if r == nil {
				f, _ := constant.Float64Val(c.Value)
				r = new(big.Rat).SetFloat64(f)
			}
			return fc.mkVal(t, "((_ to_fp 11 53) RNE (/ "+r.Num().String()+".0 "+r.Denom().String()+".0))")
		}
		if i, ok := constant.Int64Val(constant.ToInt(c.Value)); ok {
			return fc.mkVal(t, intLit(strconv.FormatInt(i, 10)))
		}
	}
	fc.unsupported("constant %s", c.String())
	return fc.mkVal(t, fc.zero(t))
}

// ---- function execution

func (fc *FnCtx) newFrame(fn *ssa.Function, depth int, cond string) *Frame {
	return &Frame{fc: fc, fn: fn, vals: map[ssa.Value]Val{}, depth: depth, cond: cond, reach: map[int]string{}, out: map[int]State{}, edges: map[[2]int]string{}, names: map[string][]ssa.Value{}, loopOrd: map[int]int{}}
}

func isBackEdge(from, to *ssa.BasicBlock) bool { return to.Dominates(from) }

// onlyElemStores: the array is only written element-wise with constant indices and then sliced.
func onlyElemStores(a *ssa.Alloc) bool {
	for _, r := range *a.Referrers() {
		switch u := r.(type) {
		case *ssa.IndexAddr:
			if _, ok := constInt(u.Index); !ok {
				return false
			}
			for _, r2 := range *u.Referrers() {
				if st, ok := r2.(*ssa.Store); !ok || st.Addr != u {
					return false
				}
			}
		case *ssa.Slice:
			if u.Low != nil || u.High != nil {
				return false
			}
		case *ssa.DebugRef:
		default:
			return false
		}
	}
	return true
}

func rpo(fn *ssa.Function) []*ssa.BasicBlock {
	seen := map[int]bool{}
	var post []*ssa.BasicBlock
	var dfs func(b *ssa.BasicBlock)
	dfs = func(b *ssa.BasicBlock) {
		seen[b.Index] = true
		for _, s := range b.Succs {
			if isBackEdge(b, s) || seen[s.Index] {
				continue
			}
			dfs(s)
		}
		post = append(post, b)
	}
	dfs(fn.Blocks[0])
	for i, j := 0, len(post)-1; i < j; i, j = i+1, j-1 {
		post[i], post[j] = post[j], post[i]
	}
	return post
}

// loopHeaders returns header block indexes in source order.
func loopHeaders(fn *ssa.Function) []int {
	hs := map[int]token.Pos{}
	for _, b := range fn.Blocks {
		for _, s := range b.Succs {
			if isBackEdge(b, s) {
				// position: first instruction with a position in header or its comment
				if _, ok := hs[s.Index]; !ok {
					hs[s.Index] = blockPos(s)
				}
			}
		}
	}
	var idx []int
	for k := range hs {
		idx = append(idx, k)
	}
	sort.Slice(idx, func(i, j int) bool {
		pi, pj := hs[idx[i]], hs[idx[j]]
		if pi != pj {
			return pi < pj
		}
		return idx[i] < idx[j]
	})
	return idx
}

func blockPos(b *ssa.BasicBlock) token.Pos {
	for _, in := range b.Instrs {
		if p := in.Pos(); p.IsValid() {
			return p
		}
	}
	// look at successors' first positions
	for _, s := range b.Succs {
		for _, in := range s.Instrs {
			if p := in.Pos(); p.IsValid() {
				return p
			}
		}
	}
	return token.NoPos
}

// loopBody returns the set of blocks in the natural loop of header h.
func loopBody(h *ssa.BasicBlock) map[int]*ssa.BasicBlock {
	body := map[int]*ssa.BasicBlock{h.Index: h}
	var stack []*ssa.BasicBlock
	for _, p := range h.Preds {
		if isBackEdge(p, h) {
			if _, ok := body[p.Index]; !ok {
				body[p.Index] = p
				stack = append(stack, p)
			}
		}
	}
	for len(stack) > 0 {
		b := stack[len(stack)-1]
		stack = stack[:len(stack)-1]
		for _, p := range b.Preds {
			if _, ok := body[p.Index]; !ok {
				body[p.Index] = p
				stack = append(stack, p)
			}
		}
	}
	return body
}

// exec runs fn symbolically; returns merged results, the out state and the condition of normal return.
func (fr *Frame) exec(args []Val, free []Val, st State) ([]Val, State, string) {
	fc := fr.fc
	fn := fr.fn
	fr.free = free
	fr.args = args
	fr.entrySt = st.clone()
	if len(fn.Blocks) == 0 {
		fc.unsupported("no body for %s", fn.String())
		return nil, st, "false"
	}
	for i, p := range fn.Params {
		if i < len(args) {
			v := args[i]
			if v.Typ == nil {
				v.Typ = p.Type()
			}
			fr.vals[p] = v
		}
	}
	for i, h := range loopHeaders(fn) {
		fr.loopOrd[h] = i + 1
	}
	// source names of locals (for loop invariants): collected up front, so that a local that is only addressed
	// later in the function (e.g. assigned inside the loop) is already known at the loop head; lookupName keeps
	// only references whose value is defined in a dominating block
	for _, b := range fn.Blocks {
		for _, in := range b.Instrs {
			if x, ok := in.(*ssa.DebugRef); ok && x.Object() != nil {
				key := x.Object().Name()
				if x.IsAddr {
					key = "&" + key
				}
				dup := false
				for _, y := range fr.names[key] {
					if y == x.X {
						dup = true
					}
				}
				if !dup {
					fr.names[key] = append(fr.names[key], x.X)
				}
			}
		}
	}
	order := rpo(fn)
	for _, b := range order {
		fr.execBlock(b, st)
	}
	return fr.mergeReturns(st)
}

func (fr *Frame) mergeReturns(entry State) ([]Val, State, string) {
	fc := fr.fc
	if len(fr.rets) == 0 {
		return nil, entry, "false"
	}
	var conds []string
	var sts []State
	for _, r := range fr.rets {
		conds = append(conds, r.cond)
		sts = append(sts, r.st)
	}
	out := fc.mergeStates(conds, sts, "ret")
	n := len(fr.rets[0].vals)
	res := make([]Val, n)
	for i := 0; i < n; i++ {
		i := i
		v := fr.rets[0].vals[i]
		t := fc.mergeTerm(conds, func(k int) string { return fr.rets[k].vals[i].T }, v.S, "res")
		v.T = t
		v.Fn = nil
		res[i] = v
	}
	return res, out, or(conds...)
}

func (fr *Frame) edgeCond(from, to *ssa.BasicBlock) string {
	return fr.edges[[2]int{from.Index, to.Index}]
}

func (fr *Frame) addEdge(from, to *ssa.BasicBlock, c string) {
	k := [2]int{from.Index, to.Index}
	if old, ok := fr.edges[k]; ok {
		fr.edges[k] = or(old, c)
	} else {
		fr.edges[k] = c
	}
}

func (fr *Frame) execBlock(b *ssa.BasicBlock, entry State) {
	fc := fr.fc
	var st State
	var reach string
	isHeader := fr.loopOrd[b.Index] > 0
	var preds []*ssa.BasicBlock
	var conds []string
	var sts []State
	if b.Index == 0 {
		reach = fr.cond
		st = entry.clone()
	} else {
		for _, p := range b.Preds {
			if isBackEdge(p, b) {
				continue
			}
			c, ok := fr.edges[[2]int{p.Index, b.Index}]
			if !ok {
				continue // unreachable predecessor (e.g. after panic)
			}
			preds = append(preds, p)
			conds = append(conds, c)
			sts = append(sts, fr.out[p.Index])
		}
		if len(preds) == 0 {
			fr.reach[b.Index] = "false"
			fr.out[b.Index] = entry.clone()
			// still define values to keep later lookups total
			reach = "false"
			st = entry.clone()
		} else {
			reach = or(conds...)
			st = fc.mergeStates(conds, sts, fmt.Sprintf("b%d", b.Index))
		}
	}
	if len(reach) > 120 {
		reach = fc.B.Define(fmt.Sprintf("reach_%s_b%d", fr.fn.Name(), b.Index), "Bool", reach)
	}
	fr.reach[b.Index] = reach

	// phis
	phiIdx := func(p *ssa.BasicBlock) int {
		for i, q := range b.Preds {
			if q == p {
				return i
			}
		}
		return -1
	}
	var phis []*ssa.Phi
	for _, in := range b.Instrs {
		if ph, ok := in.(*ssa.Phi); ok {
			phis = append(phis, ph)
		} else {
			break
		}
	}
	if isHeader {
		fr.loopEntry(b, phis, preds, conds, &st, reach)
	} else {
		for _, ph := range phis {
			var v Val
			if len(preds) == 0 {
				v = fc.mkVal(ph.Type(), fc.zero(ph.Type()))
			} else {
				first := fr.get(ph.Edges[phiIdx(preds[0])])
				v = first
				t := fc.mergeTerm(conds, func(i int) string { return fr.get(ph.Edges[phiIdx(preds[i])]).T }, first.S, "phi_"+ph.Name())
				if t != first.T {
					v.Fn = nil
					// interior pointers must agree
					for i := range preds {
						o := fr.get(ph.Edges[phiIdx(preds[i])])
						if len(o.PPath) != 0 || len(first.PPath) != 0 {
							fc.unsupported("phi of interior pointers in %s", fr.fn.Name())
						}
					}
				}
				v.T = t
				v.Typ = ph.Type()
			}
			fr.vals[ph] = v
		}
	}

	for i, in := range b.Instrs[len(phis):] {
		fr.curBlock, fr.curIdx = b, i
		fr.execInstr(b, in, &st, reach)
	}
	fr.out[b.Index] = st
}

func (fr *Frame) get(v ssa.Value) Val {
	fc := fr.fc
	switch x := v.(type) {
	case *ssa.Const:
		return fc.constVal(x)
	case *ssa.Global:
		return fc.globalAddr(x)
	case *ssa.Function:
		return Val{S: "Int", T: "0", Typ: x.Type(), Fn: &FnVal{Fn: x}}
	case *ssa.Builtin:
		return Val{S: "Int", T: "0", Typ: x.Type()}
	case *ssa.FreeVar:
		for i, fv := range fr.fn.FreeVars {
			if fv == x && i < len(fr.free) {
				return fr.free[i]
			}
		}
		fc.unsupported("free variable %s in %s", x.Name(), fr.fn.Name())
		return fc.freshVal(x.Type(), "free")
	}
	if val, ok := fr.vals[v]; ok {
		if len(fr.rebinds) > 0 {
			return fr.applyRebinds(v, val)
		}
		return val
	}
	// value defined in a block that was not executed (unreachable) or a parameter without arg
	nv := fc.freshVal(v.Type(), "undef_"+v.Name())
	fr.vals[v] = nv
	return nv
}

func (fc *FnCtx) globalAddr(g *ssa.Global) Val {
	// pointer to global; loads are handled specially in UnOp
	return Val{S: "Int", T: "0", Typ: g.Type(), Fn: &FnVal{Special: "global:" + g.Pkg.Pkg.Path() + "." + g.Name()}}
}

func (fr *Frame) set(v ssa.Value, val Val) {
	if val.Typ == nil {
		val.Typ = v.Type()
	}
	fr.vals[v] = val
}

func (fr *Frame) define(v ssa.Value, term string) Val {
	fc := fr.fc
	val := fc.mkVal(v.Type(), term)
	if len(term) > 60 {
		val.T = fc.B.Define(fr.fn.Name()+"_"+v.Name(), val.S, term)
	}
	fr.vals[v] = val
	return val
}

func (fr *Frame) execInstr(b *ssa.BasicBlock, in ssa.Instruction, st *State, reach string) {
	fc := fr.fc
	switch x := in.(type) {
	case *ssa.DebugRef:
		if id, ok := x.Expr.(interface{ String() string }); ok && !x.IsAddr {
			_ = id
		}
	case *ssa.Alloc:
		elem := x.Type().Underlying().(*types.Pointer).Elem()
		if arr, ok := elem.Underlying().(*types.Array); ok && (x.Comment == "varargs" || x.Comment == "slicelit") && onlyElemStores(x) {
			// call-site argument arrays: kept out of the heap, elements tracked statically
			va := &varArr{elem: arr.Elem(), vals: make([]Val, arr.Len())}
			for i := range va.vals {
				va.vals[i] = fc.mkVal(arr.Elem(), fc.zero(arr.Elem()))
			}
			fr.vals[x] = Val{S: "Int", T: "0", Typ: x.Type(), Fn: &FnVal{Special: "vararr"}, VA: va}
			return
		}
		p := fc.alloc(st, elem, x.Name())
		p.Typ = x.Type()
		fc.store(st, p, fc.mkVal(elem, fc.zero(elem)))
		fr.vals[x] = p
	case *ssa.BinOp:
		fr.binop(x, st, reach)
	case *ssa.UnOp:
		fr.unop(x, st, reach)
	case *ssa.Call:
		res := fr.call(x, &x.Call, st, reach)
		fr.set(x, res)
	case *ssa.ChangeInterface:
		v := fr.get(x.X)
		ns := fc.B.SortOf(x.Type())
		if v.S == "Int" && ns == "Iface" {
			// error -> any: keep identity in the payload
			v.T = "(ite (= " + v.T + " 0) (mkI 0 0) (mkI 999999 " + v.T + "))"
		} else if v.S == "Iface" && ns == "Int" {
			v.T = "(ite (= (i_tag " + v.T + ") 0) 0 (ite (= (i_tag " + v.T + ") 999999) (i_pl " + v.T + ") " + fc.B.Fresh("errconv", "Int") + "))"
		}
		if v.Fn == nil && v.S == "Iface" {
			if impl := fc.closedImpl(x.X.Type()); impl != nil {
				// closed world: remember the concrete value behind the interface (used by fmt models)
				v.Fn = &FnVal{Special: "dyn", Data: []Val{fc.mkVal(impl, fc.B.Unbox(impl, "(i_pl "+v.T+")"))}}
			}
		}
		v.Typ = x.Type()
		v.S = ns
		fr.vals[x] = v
	case *ssa.ChangeType:
		v := fr.get(x.X)
		ns := fc.B.SortOf(x.Type())
		if ns != v.S {
			fc.unsupported("ChangeType across sorts %s -> %s", v.S, ns)
		}
		v.Typ = x.Type()
		fr.vals[x] = v
	case *ssa.Convert:
		fr.convert(x)
	case *ssa.Extract:
		t := fr.get(x.Tuple)
		if x.Index < len(t.Tuple) {
			v := t.Tuple[x.Index]
			if v.Typ == nil {
				v.Typ = x.Type()
			}
			fr.vals[x] = v
		} else {
			fc.unsupported("extract from non-tuple %s", x.Tuple.Name())
			fr.vals[x] = fc.freshVal(x.Type(), "ext")
		}
	case *ssa.Field:
		v := fr.get(x.X)
		stt := x.X.Type().Underlying().(*types.Struct)
		info, f, ok := fc.B.fieldOf(x.X.Type(), stt.Field(x.Field).Name())
		_ = info
		if !ok {
			fr.vals[x] = fc.freshVal(x.Type(), "fld")
			fc.unsupported("field %s of %s", stt.Field(x.Field).Name(), x.X.Type())
			return
		}
		fr.define(x, "("+f.sel+" "+v.T+")")
	case *ssa.FieldAddr:
		p := fr.get(x.X)
		pt := x.X.Type().Underlying().(*types.Pointer).Elem()
		stt := pt.Underlying().(*types.Struct)
		info, _, ok := fc.B.fieldOf(pt, stt.Field(x.Field).Name())
		if !ok || info == nil {
			fc.unsupported("fieldaddr %s of %s", stt.Field(x.Field).Name(), pt)
			fr.vals[x] = Val{S: "Int", T: fc.B.Fresh("fa", "Int"), Typ: x.Type(), PBase: x.Type().Underlying().(*types.Pointer).Elem()}
			return
		}
		if p.PBase == nil {
			p.PBase = pt
		}
		np := Val{S: "Int", T: p.T, Typ: x.Type(), PBase: p.PBase}
		np.PPath = append(append([]pathElem(nil), p.PPath...), pathElem{field: info.byName[stt.Field(x.Field).Name()], info: info})
		if p.Fn != nil && p.Fn.Special == "elemptr" {
			np.Fn = p.Fn // a field of a slice element: a store through it is written back to the slice
		}
		fr.vals[x] = np
		// nil dereference: a safety site; afterwards the path continues only if non-nil (a panic aborts)
		fc.safety(reach, eq(p.T, "0"), "nil-deref", in)
	case *ssa.IndexAddr:
		fr.indexAddr(x, st, reach)
	case *ssa.Index:
		fr.index(x, st, reach)
	case *ssa.Lookup:
		fr.lookup(x, st, reach)
	case *ssa.Slice:
		fr.slice(x, st, reach)
	case *ssa.MakeSlice:
		ln := fr.get(x.Len)
		et := x.Type().Underlying().(*types.Slice).Elem()
		if isByte(et) {
			z := fc.B.Fresh("mkbytes", "String")
			fc.B.Assert("(= (str.len " + z + ") " + ln.T + ")")
			fr.define(x, "(mkB false "+z+")")
		} else {
			fr.define(x, fmt.Sprintf("(mkS false %s ((as const (Array Int %s)) %s))", ln.T, fc.B.SortOf(et), fc.zero(et)))
		}
		fc.safety(reach, "(< "+ln.T+" 0)", "makeslice-len", in)
	case *ssa.MakeMap:
		mt := x.Type().Underlying().(*types.Map)
		p := fc.alloc(st, x.Type(), x.Name())
		ms := fc.mapSort(mt)
		h := fc.heapOf(st, ms)
		fc.setHeap(st, ms, fmt.Sprintf("(store %s %s (mkM ((as const (Array %s Bool)) false) ((as const (Array %s %s)) %s)))", h, p.T, fc.B.SortOf(mt.Key()), fc.B.SortOf(mt.Key()), fc.B.SortOf(mt.Elem()), fc.zero(mt.Elem())))
		fr.vals[x] = Val{S: "Int", T: p.T, Typ: x.Type()}
	case *ssa.MapUpdate:
		m := fr.get(x.Map)
		mt := x.Map.Type().Underlying().(*types.Map)
		ms := fc.mapSort(mt)
		h := fc.heapOf(st, ms)
		k := fr.get(x.Key)
		v := fr.get(x.Value)
		cur := "(select " + h + " " + m.T + ")"
		fc.setHeap(st, ms, fmt.Sprintf("(store %s %s (mkM (store (m_dom %s) %s true) (store (m_val %s) %s %s)))", h, m.T, cur, k.T, cur, k.T, v.T))
		fc.safety(reach, eq(m.T, "0"), "nil-map-write", in)
	case *ssa.MakeInterface:
		v := fr.get(x.X)
		if isErrorType(x.Type()) && isSentinelErrType(x.X.Type()) {
			v.Typ = x.Type()
			fr.vals[x] = v
			return
		}
		if isErrorType(x.Type()) {
			// concrete error value: non-nil error with unknown root
			e := fc.B.Fresh("errv", "Int")
			fc.B.Assert("(> " + e + " 0)")
			fr.vals[x] = Val{S: "Int", T: e, Typ: x.Type()}
			return
		}
		s := fc.B.SortOf(x.Type())
		if s != "Iface" {
			// interface mapped to a special sort (View, Ctx)
			if v.S == s {
				v.Typ = x.Type()
				fr.vals[x] = v
			} else {
				fr.vals[x] = fc.freshVal(x.Type(), "mkiface")
			}
			return
		}
		var boxed string
		if onlyVarargUse(x) {
			boxed = fc.B.BoxQuiet(x.X.Type(), v.T) // formatting argument: never unboxed, no inverse axiom needed
		} else {
			boxed = fc.B.Box(x.X.Type(), v.T)
		}
		nv := fr.define(x, "(mkI "+fc.B.Tag(x.X.Type())+" "+boxed+")")
		nv.Fn = &FnVal{Special: "dyn", Data: []Val{v}}
		fr.vals[x] = nv
	case *ssa.TypeAssert:
		fr.typeAssert(x, st, reach)
	case *ssa.MakeClosure:
		var binds []Val
		for _, bv := range x.Bindings {
			binds = append(binds, fr.get(bv))
		}
		fr.vals[x] = Val{S: "Int", T: "0", Typ: x.Type(), Fn: &FnVal{Fn: x.Fn.(*ssa.Function), Bindings: binds}}
	case *ssa.Store:
		p := fr.get(x.Addr)
		v := fr.get(x.Val)
		if p.VA != nil && p.Fn != nil && p.Fn.Special == "varelem" {
			p.VA.vals[p.VAIdx] = v
			return
		}
		if p.Fn != nil && strings.HasPrefix(p.Fn.Special, "global:") {
			fc.unsupported("store to global %s", p.Fn.Special)
			return
		}
		fc.store(st, p, v)
		if p.Fn != nil && p.Fn.Special == "elemptr" {
			fr.sliceElemWrite(x, p, v, st)
		}
	case *ssa.Range:
		fr.rangeInit(x, st)
	case *ssa.Next:
		fr.rangeNext(x, st, reach)
	case *ssa.Defer:
		fr.defers = append(fr.defers, deferred{cond: reach, call: &x.Call, fr: fr})
	case *ssa.RunDefers:
		fr.runDefers(st, reach)
	case *ssa.If:
		c := fr.get(x.Cond)
		fr.addEdge(b, b.Succs[0], and(reach, c.T))
		fr.addEdge(b, b.Succs[1], and(reach, not(c.T)))
		fr.backEdges(b, st)
	case *ssa.Jump:
		fr.addEdge(b, b.Succs[0], reach)
		fr.backEdges(b, st)
	case *ssa.Return:
		var vs []Val
		for _, r := range x.Results {
			vs = append(vs, fr.get(r))
		}
		fr.rets = append(fr.rets, retSite{cond: reach, vals: vs, st: st.clone()})
	case *ssa.Panic:
		fc.panicSites = append(fc.panicSites, panicSite{cond: reach, desc: "panic", pos: posStr(fc.W, x.Pos())})
	case *ssa.Go, *ssa.Select, *ssa.Send, *ssa.MakeChan:
		fc.unsupported("concurrency instruction %T in %s", in, fr.fn.Name())
	case *ssa.SliceToArrayPointer:
		fc.unsupported("SliceToArrayPointer")
		fr.vals[x] = fc.freshVal(x.Type(), "s2a")
	case *ssa.MultiConvert:
		fc.unsupported("MultiConvert")
		fr.vals[x] = fc.freshVal(x.Type(), "mc")
	default:
		fc.unsupported("instruction %T", in)
	}
}

func (fc *FnCtx) mapSort(mt *types.Map) string {
	if !fc.B.declared["sort:MapV"] {
		fc.B.declared["sort:MapV"] = true
		fc.B.Raw("(declare-datatypes ((MapV 2)) ((par (K V) ((mkM (m_dom (Array K Bool)) (m_val (Array K V)))))))")
	}
	return "(MapV " + fc.B.SortOf(mt.Key()) + " " + fc.B.SortOf(mt.Elem()) + ")"
}

// safety records a potential runtime panic: reach && bad.
func (fc *FnCtx) safety(reach, bad, kind string, in interface{ Pos() token.Pos }) {
	if bad == "false" || fc.inSpec > 0 {
		return
	}
	fc.safetySites = append(fc.safetySites, safetySite{cond: and(reach, bad), kind: kind, pos: posStr(fc.W, in.Pos())})
	// a runtime panic aborts: later code is reached only if the check passed. The assumption carries a marker
	// so that the safety obligation of this very site is assembled without it.
	fc.B.Raw(fmt.Sprintf("(assert %s) ;;abort:%d;", implies(reach, not(bad)), len(fc.safetySites)))
}

func (fr *Frame) binop(x *ssa.BinOp, st *State, reach string) {
	fc := fr.fc
	a, b := fr.get(x.X), fr.get(x.Y)
	t := x.X.Type()
	s := a.S
	isFloat := s == "(_ FloatingPoint 11 53)"
	var term string
	switch x.Op {
	case token.ADD:
		switch {
		case s == "String":
			term = "(str.++ " + a.T + " " + b.T + ")"
		case isFloat:
			term = "(fp.add RNE " + a.T + " " + b.T + ")"
		default:
			term = wrapInt(x.Type(), "(+ "+a.T+" "+b.T+")")
		}
	case token.SUB:
		if isFloat {
			term = "(fp.sub RNE " + a.T + " " + b.T + ")"
		} else if c, ok := constInt(x.Y); ok && c >= 0 && c <= 1<<31 && isLenCall(x.X) {
			// len(..) - c with a small non-negative constant cannot wrap (0 <= len < 2^63): keep the term linear
			term = "(- " + a.T + " " + b.T + ")"
		} else {
			term = wrapInt(x.Type(), "(- "+a.T+" "+b.T+")")
		}
	case token.MUL:
		if isFloat {
			term = "(fp.mul RNE " + a.T + " " + b.T + ")"
		} else {
			term = wrapInt(x.Type(), "(* "+a.T+" "+b.T+")")
		}
	case token.QUO:
		if isFloat {
			term = "(fp.div RNE " + a.T + " " + b.T + ")"
		} else {
			fc.safety(reach, eq(b.T, "0"), "div-by-zero", x)
			_, signed, _ := intBits(t)
			if signed {
				term = wrapInt(x.Type(), tdiv(a.T, b.T))
			} else {
				term = "(div " + a.T + " " + b.T + ")"
			}
		}
	case token.REM:
		fc.safety(reach, eq(b.T, "0"), "div-by-zero", x)
		_, signed, _ := intBits(t)
		if signed {
			term = "(- " + a.T + " (* " + b.T + " " + tdiv(a.T, b.T) + "))"
		} else {
			term = "(mod " + a.T + " " + b.T + ")"
		}
	case token.EQL, token.NEQ:
		var e string
		switch {
		case isFloat:
			e = "(fp.eq " + a.T + " " + b.T + ")"
		case s == "Bytes":
			// only comparison with nil is legal
			if isNilConst(x.Y) {
				e = "(b_nil " + a.T + ")"
			} else {
				e = "(b_nil " + b.T + ")"
			}
		case strings.HasPrefix(s, "(Slice"):
			if isNilConst(x.Y) {
				e = "(s_nil " + a.T + ")"
			} else {
				e = "(s_nil " + b.T + ")"
			}
		default:
			e = eq(a.T, b.T)
		}
		if x.Op == token.NEQ {
			e = not(e)
		}
		term = e
	case token.LSS, token.LEQ, token.GTR, token.GEQ:
		op := map[token.Token]string{token.LSS: "<", token.LEQ: "<=", token.GTR: ">", token.GEQ: ">="}[x.Op]
		switch {
		case isFloat:
			fop := map[token.Token]string{token.LSS: "fp.lt", token.LEQ: "fp.leq", token.GTR: "fp.gt", token.GEQ: "fp.geq"}[x.Op]
			term = "(" + fop + " " + a.T + " " + b.T + ")"
		case s == "String":
			switch x.Op {
			case token.LSS:
				term = "(str.< " + a.T + " " + b.T + ")"
			case token.LEQ:
				term = "(str.<= " + a.T + " " + b.T + ")"
			case token.GTR:
				term = "(str.< " + b.T + " " + a.T + ")"
			case token.GEQ:
				term = "(str.<= " + b.T + " " + a.T + ")"
			}
		default:
			term = "(" + op + " " + a.T + " " + b.T + ")"
		}
	case token.SHL, token.SHR, token.AND, token.OR, token.XOR, token.AND_NOT:
		term = fr.bitop(x, a, b)
	default:
		fc.unsupported("binop %s", x.Op)
		term = fc.B.Fresh("binop", fc.B.SortOf(x.Type()))
	}
	fr.define(x, term)
}

// isLenCall: v is the result of the builtin len (an int in [0, 2^63))
func isLenCall(v ssa.Value) bool {
	c, ok := v.(*ssa.Call)
	if !ok {
		return false
	}
	b, ok := c.Call.Value.(*ssa.Builtin)
	return ok && b.Name() == "len"
}

func isNilConst(v ssa.Value) bool {
	c, ok := v.(*ssa.Const)
	return ok && c.Value == nil
}

func tdiv(a, b string) string {
	return "(ite (>= " + a + " 0) (ite (> " + b + " 0) (div " + a + " " + b + ") (- (div " + a + " (- " + b + ")))) (ite (> " + b + " 0) (- (div (- " + a + ") " + b + ")) (div (- " + a + ") (- " + b + "))))"
}

func constInt(v ssa.Value) (int64, bool) {
	c, ok := v.(*ssa.Const)
	if !ok || c.Value == nil || c.Value.Kind() != constant.Int {
		return 0, false
	}
	i, ok := constant.Int64Val(c.Value)
	if !ok {
		u, ok2 := constant.Uint64Val(c.Value)
		if ok2 && u == ^uint64(0) {
			return -1, true
		}
		return 0, false
	}
	return i, true
}

func (fr *Frame) bitop(x *ssa.BinOp, a, b Val) string {
	fc := fr.fc
	bits, signed, _ := intBits(x.Type())
	if k, ok := constInt(x.Y); ok && !signed {
		switch x.Op {
		case token.SHL:
			if k >= 0 && k < 64 {
				return wrapInt(x.Type(), "(* "+a.T+" "+pow2(int(k))+")")
			}
		case token.SHR:
			if k >= 0 && k < 64 {
				return "(div " + a.T + " " + pow2(int(k)) + ")"
			}
		case token.AND:
			// mask 2^n-1
			for n := 1; n <= bits; n++ {
				if new(big.Int).Sub(new(big.Int).Lsh(big.NewInt(1), uint(n)), big.NewInt(1)).Cmp(big.NewInt(k)) == 0 {
					return "(mod " + a.T + " " + pow2(n) + ")"
				}
			}
		}
	}
	if k, ok := constInt(x.Y); ok && signed && x.Op == token.SHR && k >= 0 && k < 64 {
		return "(div " + a.T + " " + pow2(int(k)) + ")"
	}
	if k, ok := constInt(x.Y); ok && signed && x.Op == token.SHL && k >= 0 && k < 64 {
		return wrapInt(x.Type(), "(* "+a.T+" "+pow2(int(k))+")")
	}
	fn := "bitop_" + sanitize(x.Op.String())
	fc.B.DeclFun(fn, []string{"Int", "Int"}, "Int")
	fc.B.Note("bit operation " + x.Op.String() + " abstracted (uninterpreted, range-constrained)")
	t := "(" + fn + " " + a.T + " " + b.T + ")"
	fc.B.Assert(rangeOf(x.Type(), t))
	return t
}

func (fr *Frame) unop(x *ssa.UnOp, st *State, reach string) {
	fc := fr.fc
	switch x.Op {
	case token.MUL: // load
		p := fr.get(x.X)
		if p.Fn != nil && strings.HasPrefix(p.Fn.Special, "global:") {
			fr.vals[x] = fc.loadGlobal(x.X.(*ssa.Global), x.Type())
			return
		}
		fc.safety(reach, eq(p.T, "0"), "nil-deref", x)
		v := fc.load(st, p)
		v.Typ = x.Type()
		if len(v.T) > 60 {
			v.T = fc.B.Define(fr.fn.Name()+"_"+x.Name(), v.S, v.T)
		}
		fc.assumeWF(v, reach)
		fc.assumeAlive(st, v)
		fr.vals[x] = v
	case token.NOT:
		fr.define(x, not(fr.get(x.X).T))
	case token.SUB:
		a := fr.get(x.X)
		if a.S == "(_ FloatingPoint 11 53)" {
			fr.define(x, "(fp.neg "+a.T+")")
		} else {
			fr.define(x, wrapInt(x.Type(), "(- "+a.T+")"))
		}
	case token.XOR:
		a := fr.get(x.X)
		_, signed, _ := intBits(x.Type())
		bits, _, _ := intBits(x.Type())
		if signed {
			fr.define(x, "(- (- "+a.T+") 1)")
		} else {
			fr.define(x, "(- "+pow2(bits)+" 1 "+a.T+")")
		}
	default:
		fc.unsupported("unop %s", x.Op)
		fr.vals[x] = fc.freshVal(x.Type(), "unop")
	}
}

func (fr *Frame) convert(x *ssa.Convert) {
	fc := fr.fc
	v := fr.get(x.X)
	from, to := x.X.Type(), x.Type()
	fs, ts := fc.B.SortOf(from), fc.B.SortOf(to)
	switch {
	case fs == "Int" && ts == "Int":
		if _, _, ok := intBits(to); ok {
			// narrowing or sign change wraps; widening within range is the identity
			fb, fsg, _ := intBits(from)
			tb, tsg, _ := intBits(to)
			if fsg == tsg && tb >= fb || !fsg && tsg && tb > fb {
				fr.define(x, v.T)
			} else {
				fr.define(x, wrapInt(to, v.T))
			}
		} else {
			fr.define(x, v.T)
		}
	case fs == "String" && ts == "Bytes":
		fr.define(x, "(mkB false "+v.T+")")
	case fs == "Bytes" && ts == "String":
		fr.define(x, "(b_s "+v.T+")")
	case fs == "Bytes" && ts == "Bytes":
		fr.define(x, v.T)
	case fs == "Int" && ts == "String":
		fr.define(x, "(str.from_code "+v.T+")")
	case fs == "Int" && ts == "(_ FloatingPoint 11 53)":
		fr.define(x, "((_ to_fp 11 53) RNE (to_real "+v.T+"))")
	case fs == "(_ FloatingPoint 11 53)" && ts == "Int":
		// Go: truncation toward zero; out-of-range is implementation-defined -> we take the mathematical value and wrap
		fc.B.Note("float->int conversion: mathematical truncation, then wrapped to the target width (Go leaves out-of-range implementation-defined)")
		r := "(fp.to_real (fp.roundToIntegral RTZ " + v.T + "))"
		fr.define(x, wrapInt(to, "(to_int "+r+")"))
	case fs == ts:
		fr.define(x, v.T)
	default:
		fc.unsupported("convert %s -> %s", from, to)
		fr.vals[x] = fc.freshVal(to, "conv")
	}
}

func (fr *Frame) typeAssert(x *ssa.TypeAssert, st *State, reach string) {
	fc := fr.fc
	v := fr.get(x.X)
	at := x.AssertedType
	var okT, valT string
	var valTyp = at
	_, toIface := at.Underlying().(*types.Interface)
	switch {
	case isErrorType(x.X.Type()):
		// error -> concrete/ interface: unknown
		okT = fc.B.Fresh("ta_ok", "Bool")
		valT = fc.B.Fresh("ta_val", fc.B.SortOf(at))
	case v.S != "Iface":
		okT = fc.B.Fresh("ta_ok", "Bool")
		valT = fc.B.Fresh("ta_val", fc.B.SortOf(at))
		if fc.B.SortOf(at) == v.S {
			okT, valT = "true", v.T
		}
	case toIface:
		if fc.B.SortOf(at) == "Iface" {
			// interface-to-interface: succeeds iff dynamic type implements; unknown statically unless nil
			okT = fc.B.Fresh("ta_ok", "Bool")
			fc.B.Assert(implies(okT, "(not (= (i_tag "+v.T+") 0))"))
			if impl := fc.closedImpl(x.X.Type()); impl != nil && types.Implements(impl, at.Underlying().(*types.Interface)) {
				fc.B.Assert(eq(okT, "(not (= (i_tag "+v.T+") 0))"))
			}
			valT = v.T
		} else {
			okT = fc.B.Fresh("ta_ok", "Bool")
			valT = fc.B.Fresh("ta_val", fc.B.SortOf(at))
		}
	default:
		okT = eq("(i_tag "+v.T+")", fc.B.Tag(at))
		valT = fc.B.Unbox(at, "(i_pl "+v.T+")")
		if impl := fc.closedImpl(x.X.Type()); impl != nil && types.Identical(impl, at) {
			// closed world: a non-nil value of this interface always has this dynamic type
			fc.B.Assert(or(eq("(i_tag "+v.T+")", "0"), okT))
		}
	}
	val := fc.mkVal(valTyp, valT)
	if _, isPtr := at.Underlying().(*types.Pointer); isPtr && fc.Mode == "safety" && val.S == "Int" {
		// sweep assumption: an interface value does not hold a typed nil pointer (decoders allocate the wrapper
		// of a oneof / Any before they set the interface field)
		fc.B.Assert(implies(and(reach, okT), not(eq(valT, "0"))))
		fc.trusted["sweep assumption: interface values do not hold typed nil pointers"] = true
	}
	if x.CommaOk {
		okV := Val{S: "Bool", T: okT, Typ: types.Typ[types.Bool]}
		zero := fc.zero(at)
		val.T = ite(okT, valT, zero)
		if len(val.T) > 60 {
			val.T = fc.B.Define("ta", val.S, val.T)
		}
		fr.vals[x] = Val{Tuple: []Val{val, okV}, Typ: x.Type()}
	} else {
		fc.panicSites = append(fc.panicSites, panicSite{cond: and(reach, not(okT)), desc: "type assertion", pos: posStr(fc.W, x.Pos())})
		fc.safety(reach, not(okT), "type-assert", x)
		if len(val.T) > 60 {
			val.T = fc.B.Define("ta", val.S, val.T)
		}
		fc.assumeWF(val, reach)
		fr.vals[x] = val
	}
}

// closedImpl: if the interface type has a declared single implementation, return it.
func (fc *FnCtx) closedImpl(t types.Type) types.Type {
	n, ok := types.Unalias(t).(*types.Named)
	if !ok || n.Obj().Pkg() == nil {
		return nil
	}
	key := shortPkg(n.Obj().Pkg().Path()) + "." + n.Obj().Name()
	impl, ok := fc.W.Contracts.Impls[key]
	if !ok {
		return nil
	}
	return fc.W.lookupType(impl)
}

// lookupType resolves "shortpkg.Name" or "*shortpkg.Name".
func (w *World) lookupType(q string) types.Type {
	ptr := strings.HasPrefix(q, "*")
	q = strings.TrimPrefix(q, "*")
	i := strings.LastIndex(q, ".")
	if i < 0 {
		return nil
	}
	pk, name := q[:i], q[i+1:]
	for path, p := range w.ByPath {
		if shortPkg(path) == pk || path == pk {
			if o := p.Types.Scope().Lookup(name); o != nil {
				if ptr {
					return types.NewPointer(o.Type())
				}
				return o.Type()
			}
		}
	}
	// a type of a dependency (known through export data)
	if tp := w.typesPkg(pk); tp != nil {
		if o := tp.Scope().Lookup(name); o != nil {
			if ptr {
				return types.NewPointer(o.Type())
			}
			return o.Type()
		}
	}
	return nil
}

func (fr *Frame) indexAddr(x *ssa.IndexAddr, st *State, reach string) {
	fc := fr.fc
	base := fr.get(x.X)
	idx := fr.get(x.Index)
	if base.VA != nil {
		k, ok := constInt(x.Index)
		if !ok || int(k) >= len(base.VA.vals) {
			fc.unsupported("non-constant index into call-site array")
			k = 0
		}
		fr.vals[x] = Val{S: "Int", T: "0", Typ: x.Type(), Fn: &FnVal{Special: "varelem"}, VA: base.VA, VAIdx: int(k)}
		return
	}
	switch bt := x.X.Type().Underlying().(type) {
	case *types.Pointer: // pointer to array
		arr := bt.Elem().Underlying().(*types.Array)
		np := Val{S: "Int", T: base.T, Typ: x.Type(), PBase: base.PBase}
		if np.PBase == nil {
			np.PBase = bt.Elem()
		}
		np.PPath = append(append([]pathElem(nil), base.PPath...), pathElem{field: -1, index: idx.T, elem: arr.Elem()})
		fr.vals[x] = np
		fc.safety(reach, or("(< "+idx.T+" 0)", "(>= "+idx.T+" "+strconv.FormatInt(arr.Len(), 10)+")"), "index", x)
	case *types.Slice:
		// address of a slice element: represent as a "slice element pointer" (value semantics):
		// we materialise a heap cell holding the element; writes through it are not propagated back.
		ln := fr.lenOf(base)
		fc.safety(reach, or("(< "+idx.T+" 0)", "(>= "+idx.T+" "+ln+")"), "index", x)
		elem := bt.Elem()
		p := fc.alloc(st, elem, "elem")
		var ev string
		if base.S == "Bytes" {
			ev = "(str.to_code (str.at (b_s " + base.T + ") " + idx.T + "))"
		} else {
			ev = "(select (s_arr " + base.T + ") " + idx.T + ")"
		}
		fc.store(st, p, fc.mkVal(elem, ev))
		p.Typ = x.Type()
		p.Fn = &FnVal{Special: "elemptr", Data: []Val{base, idx}, Base: x.X}
		fr.vals[x] = p
	default:
		fc.unsupported("IndexAddr on %s", x.X.Type())
		fr.vals[x] = fc.freshVal(x.Type(), "ia")
	}
}

func (fr *Frame) lenOf(v Val) string {
	switch {
	case v.S == "String":
		return "(str.len " + v.T + ")"
	case v.S == "Bytes":
		return "(str.len (b_s " + v.T + "))"
	case strings.HasPrefix(v.S, "(Slice"):
		return "(s_len " + v.T + ")"
	}
	return "0"
}

func (fr *Frame) index(x *ssa.Index, st *State, reach string) {
	fc := fr.fc
	base := fr.get(x.X)
	idx := fr.get(x.Index)
	ln := fr.lenOf(base)
	fc.safety(reach, or("(< "+idx.T+" 0)", "(>= "+idx.T+" "+ln+")"), "index", x)
	switch base.S {
	case "String":
		fr.define(x, "(str.to_code (str.at "+base.T+" "+idx.T+"))")
	case "Bytes":
		fr.define(x, "(str.to_code (str.at (b_s "+base.T+") "+idx.T+"))")
	default:
		fr.define(x, "(select (s_arr "+base.T+") "+idx.T+")")
	}
	fc.assumeWF(fr.vals[x], reach)
}

func (fr *Frame) lookup(x *ssa.Lookup, st *State, reach string) {
	fc := fr.fc
	m := fr.get(x.X)
	k := fr.get(x.Index)
	if mt, ok := x.X.Type().Underlying().(*types.Map); ok {
		ms := fc.mapSort(mt)
		cur := "(select " + fc.heapOf(st, ms) + " " + m.T + ")"
		has := and(not(eq(m.T, "0")), "(select (m_dom "+cur+") "+k.T+")")
		val := ite(has, "(select (m_val "+cur+") "+k.T+")", fc.zero(mt.Elem()))
		v := fc.mkVal(mt.Elem(), val)
		if len(v.T) > 60 {
			v.T = fc.B.Define("lk", v.S, v.T)
		}
		fc.assumeWF(v, reach)
		if x.CommaOk {
			fr.vals[x] = Val{Tuple: []Val{v, {S: "Bool", T: has, Typ: types.Typ[types.Bool]}}, Typ: x.Type()}
		} else {
			fr.vals[x] = v
		}
		return
	}
	// string index
	ln := fr.lenOf(m)
	fc.safety(reach, or("(< "+k.T+" 0)", "(>= "+k.T+" "+ln+")"), "index", x)
	fr.define(x, "(str.to_code (str.at "+m.T+" "+k.T+"))")
}

func (fr *Frame) slice(x *ssa.Slice, st *State, reach string) {
	fc := fr.fc
	base := fr.get(x.X)
	if base.VA != nil {
		va := base.VA
		if isByte(va.elem) {
			parts := []string{}
			for _, v := range va.vals {
				parts = append(parts, "(str.from_code "+v.T+")")
			}
			t := "\"\""
			if len(parts) == 1 {
				t = parts[0]
			} else if len(parts) > 1 {
				t = "(str.++ " + strings.Join(parts, " ") + ")"
			}
			nv := fr.define(x, "(mkB false "+t+")")
			fr.vals[x] = nv
			return
		}
		es := fc.B.SortOf(va.elem)
		arr := "((as const (Array Int " + es + ")) " + fc.zero(va.elem) + ")"
		for i, v := range va.vals {
			arr = "(store " + arr + " " + strconv.Itoa(i) + " " + v.T + ")"
		}
		nv := fr.define(x, fmt.Sprintf("(mkS false %d %s)", len(va.vals), arr))
		nv.VA = va
		fr.vals[x] = nv
		return
	}
	// pointer to array: load it
	if pt, ok := x.X.Type().Underlying().(*types.Pointer); ok {
		if g, isG := x.X.(*ssa.Global); isG {
			base = fc.loadGlobal(g, pt.Elem())
		} else {
			base = fc.load(st, base)
		}
		if base.Typ == nil {
			base.Typ = pt.Elem()
		}
	}
	ln := fr.lenOf(base)
	lo, hi := "0", ln
	if x.Low != nil {
		lo = fr.get(x.Low).T
	}
	if x.High != nil {
		hi = fr.get(x.High).T
	}
	if x.Low != nil || x.High != nil {
		// note: slicing a slice may go up to cap; we conservatively require <= len (a stricter check than Go's)
		fc.safety(reach, or("(< "+lo+" 0)", "(> "+lo+" "+hi+")", "(> "+hi+" "+ln+")"), "slice-bounds", x)
	}
	switch base.S {
	case "String":
		fr.define(x, "(str.substr "+base.T+" "+lo+" (- "+hi+" "+lo+"))")
	case "Bytes":
		if x.Low == nil && x.High == nil {
			if _, isArr := base.Typ.Underlying().(*types.Array); isArr {
				fr.define(x, "(mkB false (b_s "+base.T+"))")
			} else {
				fr.define(x, base.T)
			}
		} else {
			fr.define(x, "(mkB (and (b_nil "+base.T+") (= "+hi+" 0)) (str.substr (b_s "+base.T+") "+lo+" (- "+hi+" "+lo+")))")
		}
	default:
		if x.Low == nil && x.High == nil {
			fr.define(x, "(mkS false (s_len "+base.T+") (s_arr "+base.T+"))")
			if _, isSl := base.Typ.Underlying().(*types.Slice); isSl {
				fr.define(x, base.T)
			}
			return
		}
		es := strings.TrimSuffix(strings.TrimPrefix(base.S, "(Slice "), ")")
		if lo == "0" {
			fr.define(x, "(mkS false "+hi+" (s_arr "+base.T+"))")
		} else {
			na := fc.B.Fresh("subarr", "(Array Int "+es+")")
			fc.B.Assert("(forall ((i Int)) (! (= (select " + na + " i) (select (s_arr " + base.T + ") (+ i " + lo + "))) :pattern ((select " + na + " i))))")
			fr.define(x, "(mkS false (- "+hi+" "+lo+") "+na+")")
			if fc.B.SplitRec && es == "String" && x.High == nil {
				// joining the tail a[lo:] is the recursive join of a from lo (T-prelude: true of strings.Join by
				// induction on the number of remaining elements)
				fc.B.JoinFrom()
				sub := fr.get(x).T
				fc.B.Assert(implies(and("(<= 0 "+lo+")", "(<= "+lo+" (s_len "+base.T+"))"),
					"(forall ((sep String)) (! (= (join_from "+sub+" sep 0) (join_from "+base.T+" sep "+lo+")) :pattern ((join_from "+sub+" sep 0))))"))
			}
		}
	}
}

// ---- loops

func (fr *Frame) lookupName(name string, at *ssa.BasicBlock, phis map[string]Val) (Val, bool) {
	if v, ok := phis[name]; ok {
		return v, true
	}
	for i, p := range fr.fn.Params {
		if p.Name() == name && i < len(fr.args) {
			return fr.vals[p], true
		}
	}
	vals := fr.names[name]
	var best ssa.Value
	for _, v := range vals {
		in, ok := v.(ssa.Instruction)
		if !ok {
			best = v
			continue
		}
		if at == nil || in.Block() == at || in.Block().Dominates(at) {
			best = v
		}
	}
	if best != nil {
		return fr.get(best), true
	}
	return Val{}, false
}

func (fr *Frame) loopEntry(b *ssa.BasicBlock, phis []*ssa.Phi, preds []*ssa.BasicBlock, conds []string, st *State, reach string) {
	fc := fr.fc
	ord := fr.loopOrd[b.Index]
	var invs []Clause
	if fr.isTop && fc.C != nil {
		invs = fc.C.Invs[ord]
	} else if c := fc.W.Contracts.ByTarget[QualName(fr.fn)]; c != nil {
		invs = c.Invs[ord]
	}
	phiIdx := func(p *ssa.BasicBlock) int {
		for i, q := range b.Preds {
			if q == p {
				return i
			}
		}
		return -1
	}
	// entry values
	entryPhis := map[string]Val{}
	entryVals := map[*ssa.Phi]Val{}
	for _, ph := range phis {
		if len(preds) == 0 {
			continue
		}
		first := fr.get(ph.Edges[phiIdx(preds[0])])
		v := first
		v.T = fc.mergeTerm(conds, func(i int) string { return fr.get(ph.Edges[phiIdx(preds[i])]).T }, first.S, "phi0_"+ph.Name())
		v.Typ = ph.Type()
		entryVals[ph] = v
		if ph.Comment != "" {
			entryPhis[ph.Comment] = v
		}
	}
	if fr.isTop && fc.Mode == "contract" {
		for i, inv := range invs {
			env := fr.invEnv(b, entryPhis, st)
			g := fc.evalGoal(env, inv.E)
			fc.addObl(fmt.Sprintf("#inv%d.%s.entry", ord, clauseName(inv, i)), "body", and(reach, not(g)), inv.Src)
		}
	}
	// havoc: state modified in loop body
	body := loopBody(b)
	mods := fr.modSet(body)
	if mods.worlds {
		// only the branches of contexts/stores known to this frame can be written by the loop body (A-ctx);
		// branches created inside the body are fresh. Everything else keeps its entry value.
		seen := map[string]bool{}
		w := st.worlds
		for _, v := range fr.vals {
			br := ""
			switch v.S {
			case "Ctx":
				br = "(c_br " + v.T + ")"
			case "View":
				br = "(v_br " + v.T + ")"
			}
			if br == "" || seen[br] {
				continue
			}
			seen[br] = true
		}
		var brs []string
		for b := range seen {
			brs = append(brs, b)
		}
		sort.Strings(brs)
		for _, b := range brs {
			w = "(store " + w + " " + b + " " + fc.B.Fresh("w_loop", "WorldS") + ")"
		}
		st.worlds = fc.B.Define("W_loop", "(Array Int WorldS)", w)
	}
	for hs := range mods.localHeaps {
		if mods.heaps[hs] || mods.all {
			continue
		}
		// the loop only allocates objects of this sort and writes to its own allocations: every object that
		// existed at function entry, and every object this function allocated before the loop, keeps its content
		before := fc.heapOf(st, hs)
		after := fc.B.Fresh("H_loop", "(Array Int "+hs+")")
		fc.B.Assert(fmt.Sprintf("(forall ((r Int)) (! (=> (or (alive0 r) (<= r 0)) (= (select %s r) (select %s r))) :pattern ((select %s r))))", after, before, after))
		for _, a := range st.allocs {
			fc.B.Assert("(= (select " + after + " " + a + ") (select " + before + " " + a + "))")
		}
		st.heaps[hs] = after
	}
	heapsBefore := map[string]string{}
	for hs := range mods.heaps {
		// keep allocations made inside the loop out of the frame: havoc the whole heap of that sort
		heapsBefore[hs] = st.heaps[hs]
		st.heaps[hs] = fc.B.Fresh("H_loop", "(Array Int "+hs+")")
	}
	if !mods.all {
		// frame refinement: a local cell of this function that never escapes (only loaded from, stored to
		// directly, or addressed by field/element) and has no store inside the loop body keeps its content.
		for _, blk := range fr.fn.Blocks {
			if body[blk.Index] != nil {
				continue
			}
			for _, in := range blk.Instrs {
				a, ok := in.(*ssa.Alloc)
				if !ok || a.Heap {
					continue
				}
				p, ok := fr.vals[a]
				if !ok || p.VA != nil || p.S != "Int" {
					continue
				}
				hs := fc.B.SortOf(a.Type().Underlying().(*types.Pointer).Elem())
				if before, ok := heapsBefore[hs]; ok && before != "" && cellStableIn(a, body) {
					fc.B.Assert("(= (select " + st.heaps[hs] + " " + p.T + ") (select " + before + " " + p.T + "))")
				}
			}
		}
	}
	if mods.all {
		st.worlds = fc.B.Fresh("W_loop", "(Array Int WorldS)")
		for hs := range st.heaps {
			st.heaps[hs] = fc.B.Fresh("H_loop", "(Array Int "+hs+")")
		}
		for hs := range fc.heapInit {
			st.heaps[hs] = fc.B.Fresh("H_loop", "(Array Int "+hs+")")
		}
	}
	for g := range mods.ghosts {
		st.ghosts[g] = fc.B.Fresh("G_loop", fc.ghostSort(g))
	}
	curPhis := map[string]Val{}
	for _, ph := range phis {
		v := fc.freshVal(ph.Type(), fr.fn.Name()+"_"+ph.Name()+"_"+ph.Comment)
		if ev, ok := entryVals[ph]; ok {
			v.PBase, v.PPath = ev.PBase, ev.PPath
			if len(ev.PPath) > 0 {
				fc.unsupported("loop-carried interior pointer")
			}
		}
		fc.assumeAlive(st, v)
		fr.vals[ph] = v
		if ph.Comment != "" {
			curPhis[ph.Comment] = v
		}
		if isRangeIndexPhi(ph) {
			// the index of a `range` loop over a slice/array/string as go/ssa builds it: starts at -1, is only
			// incremented by one, and the increment is compared with the length before use (it cannot wrap)
			fc.B.Assert(implies(reach, "(and (>= "+v.T+" (- 1)) (< "+v.T+" 9223372036854775807))"))
		}
	}
	for _, inv := range invs {
		env := fr.invEnv(b, curPhis, st)
		g := fc.evalBool(env, inv.E)
		fc.B.Assert(implies(reach, g))
	}
	if len(invs) == 0 && fr.isTop && fc.Mode == "contract" {
		fc.B.Note(fmt.Sprintf("loop #%d of %s has no invariant (loop-carried values unconstrained)", ord, fr.fn.Name()))
	}
}

// isRangeIndexPhi: phi [-1, phi+1] named rangeindex (the index variable go/ssa creates for a range loop)
func isRangeIndexPhi(ph *ssa.Phi) bool {
	if ph.Comment != "rangeindex" || len(ph.Edges) != 2 {
		return false
	}
	var hasInit, hasInc bool
	for _, e := range ph.Edges {
		switch x := e.(type) {
		case *ssa.Const:
			if x.Value != nil && x.Value.ExactString() == "-1" {
				hasInit = true
			}
		case *ssa.BinOp:
			if x.Op == token.ADD && x.X == ssa.Value(ph) {
				if c, ok := x.Y.(*ssa.Const); ok && c.Value != nil && c.Value.ExactString() == "1" {
					hasInc = true
				}
			}
		}
	}
	if !hasInit || !hasInc {
		return false
	}
	// the header ends in `if inc < length`: the value carried around the back edge was below a length
	ifi, ok := ph.Block().Instrs[len(ph.Block().Instrs)-1].(*ssa.If)
	if !ok {
		return false
	}
	cmp, ok := ifi.Cond.(*ssa.BinOp)
	if !ok || cmp.Op != token.LSS {
		return false
	}
	inc, ok := cmp.X.(*ssa.BinOp)
	return ok && inc.Op == token.ADD && inc.X == ssa.Value(ph)
}

// cellStableIn: the cell behind address a is only read, stored to directly, or addressed by field/element, and
// none of those stores is inside the given loop body.
func cellStableIn(a ssa.Value, body map[int]*ssa.BasicBlock) bool {
	refs := a.Referrers()
	if refs == nil {
		return false
	}
	for _, r := range *refs {
		switch x := r.(type) {
		case *ssa.DebugRef:
		case *ssa.UnOp:
			if x.Op != token.MUL {
				return false
			}
		case *ssa.Store:
			if x.Addr != a || x.Val == a || body[x.Block().Index] != nil {
				return false
			}
		case *ssa.FieldAddr:
			if x.X != a || !cellStableIn(x, body) {
				return false
			}
		case *ssa.IndexAddr:
			if x.X != a || !cellStableIn(x, body) {
				return false
			}
		default:
			return false
		}
	}
	return true
}

func clauseName(c Clause, i int) string {
	if c.Label != "" {
		return c.Label
	}
	return strconv.Itoa(i + 1)
}

func (fr *Frame) invEnv(b *ssa.BasicBlock, phis map[string]Val, st *State) *Env {
	env := fr.fc.contractEnv(fr.fn, fr.args, nil, &fr.entrySt, st)
	if fr.isTop && fr.fc.C != nil {
		env.pkgPath = fr.fc.C.PkgPath
		for k, v := range fr.fc.lets { // contract lets (entry-state values) are visible in invariants
			if _, ok := env.vars[k]; !ok {
				env.vars[k] = v
			}
		}
	}
	// a parameter that the loop reassigns (it has a phi at the loop head): inside the invariant its name means
	// the current value, like every other loop-carried local; the value at function entry is <name>0.
	for k, v := range phis {
		if pv, isParam := env.vars[k]; isParam {
			if _, taken := env.vars[k+"0"]; !taken {
				env.vars[k+"0"] = pv
			}
			env.vars[k] = v
		}
	}
	env.lookup = func(name string) (Val, bool) {
		if v, ok := phis[name]; ok {
			return v, true
		}
		// a local whose address is taken lives in a cell: read its current content (a value reference to such a
		// local only records what was stored into it at some earlier assignment)
		if p, ok := fr.lookupName("&"+name, b, phis); ok && p.PBase != nil {
			return fr.fc.load(st, p), true
		}
		if v, ok := fr.lookupName(name, b, phis); ok {
			return v, true
		}
		return Val{}, false
	}
	return env
}

// backEdges: at the end of block b, check invariants for edges back to loop headers.
func (fr *Frame) backEdges(b *ssa.BasicBlock, st *State) {
	fc := fr.fc
	for _, s := range b.Succs {
		if !isBackEdge(b, s) {
			continue
		}
		ord := fr.loopOrd[s.Index]
		if !(fr.isTop && fc.Mode == "contract") || fc.C == nil {
			continue
		}
		invs := fc.C.Invs[ord]
		c := fr.edges[[2]int{b.Index, s.Index}]
		idx := -1
		for i, q := range s.Preds {
			if q == b {
				idx = i
			}
		}
		phis := map[string]Val{}
		for _, in := range s.Instrs {
			ph, ok := in.(*ssa.Phi)
			if !ok {
				break
			}
			if ph.Comment != "" {
				phis[ph.Comment] = fr.get(ph.Edges[idx])
			}
		}
		{
			// explicit lemma applications at this back edge: prev_<name> is the value at the loop head
			env := fr.invEnv(s, phis, st)
			for _, in := range s.Instrs {
				ph, ok := in.(*ssa.Phi)
				if !ok {
					break
				}
				if ph.Comment != "" {
					env.vars["prev_"+ph.Comment] = fr.get(ph)
				}
			}
			fc.applyLemmas(env, ord, c)
		}
		for i, inv := range invs {
			env := fr.invEnv(s, phis, st)
			// names that are not phis must resolve to values dominating the header, which is what lookupName does
			g := fc.evalGoal(env, inv.E)
			fc.addObl(fmt.Sprintf("#inv%d.%s.step", ord, clauseName(inv, i)), "body", and(c, not(g)), inv.Src)
		}
		// the back edge contributes nothing further
		delete(fr.edges, [2]int{b.Index, s.Index})
	}
}

type modSet struct {
	worlds bool
	all    bool
	heaps  map[string]bool
	ghosts map[string]bool
	// localHeaps: heap sorts in which the blocks only allocate objects and write to objects allocated in
	// these same blocks (every other object of the sort keeps its content)
	localHeaps map[string]bool
}

// modSet computes what a set of blocks may modify (syntactic over-approximation).
func (fr *Frame) modSet(body map[int]*ssa.BasicBlock) modSet {
	fc := fr.fc
	ms := modSet{heaps: map[string]bool{}, ghosts: map[string]bool{}, localHeaps: map[string]bool{}}
	for _, b := range body {
		for _, in := range b.Instrs {
			switch x := in.(type) {
			case *ssa.Store:
				if pt, ok := x.Addr.Type().Underlying().(*types.Pointer); ok {
					// interior pointers write into their base object: find the root
					hs := fc.B.SortOf(rootElem(x.Addr, pt.Elem()))
					root := rootValue(x.Addr)
					if a, ok := root.(*ssa.Alloc); ok && body[a.Block().Index] != nil {
						ms.localHeaps[hs] = true // a write to an object allocated in these blocks
					} else if ia, ok := root.(*ssa.IndexAddr); ok {
						// a write to (a field of) a slice element: goes to the materialised cell and is written back
						// to the slice; when the slice was read from a field of an object, that object changes too
						ms.localHeaps[hs] = true
						if ld, ok := ia.X.(*ssa.UnOp); ok && ld.Op == token.MUL {
							if hp, ok := ld.X.Type().Underlying().(*types.Pointer); ok {
								ms.heaps[fc.B.SortOf(rootElem(ld.X, hp.Elem()))] = true
							}
						}
					} else {
						ms.heaps[hs] = true
					}
				}
			case *ssa.Alloc:
				ms.localHeaps[fc.B.SortOf(x.Type().Underlying().(*types.Pointer).Elem())] = true
			case *ssa.Next:
				if it, ok := fr.vals[x.Iter]; ok && it.Fn != nil && it.Fn.Special == "maprange" && len(it.Fn.Data) > 4 {
					ms.ghosts[it.Fn.Data[4].T] = true
				}
			case *ssa.MapUpdate:
				ms.heaps[fc.mapSort(x.Map.Type().Underlying().(*types.Map))] = true
			case *ssa.MakeMap:
				ms.heaps[fc.mapSort(x.Type().Underlying().(*types.Map))] = true
			case *ssa.IndexAddr:
				if sl, ok := x.X.Type().Underlying().(*types.Slice); ok {
					// the address of a slice element is a freshly materialised cell (value-semantic slices)
					ms.localHeaps[fc.B.SortOf(sl.Elem())] = true
				}
			case ssa.CallInstruction:
				eff := fc.callEffects(x.Common())
				if eff.all {
					ms.all = true
				}
				if eff.worlds {
					ms.worlds = true
				}
				for h := range eff.heaps {
					ms.heaps[h] = true
				}
				for h := range eff.localHeaps {
					ms.localHeaps[h] = true
				}
				for g := range eff.ghosts {
					ms.ghosts[g] = true
				}
			}
		}
	}
	return ms
}

// rootValue: the base value of an address computed by field/element selection
func rootValue(addr ssa.Value) ssa.Value {
	for {
		switch a := addr.(type) {
		case *ssa.FieldAddr:
			addr = a.X
			continue
		case *ssa.IndexAddr:
			if _, ok := a.X.Type().Underlying().(*types.Pointer); ok {
				addr = a.X
				continue
			}
		}
		return addr
	}
}

func rootElem(addr ssa.Value, def types.Type) types.Type {
	for {
		switch a := addr.(type) {
		case *ssa.FieldAddr:
			addr = a.X
			continue
		case *ssa.IndexAddr:
			if _, ok := a.X.Type().Underlying().(*types.Pointer); ok {
				addr = a.X
				continue
			}
		}
		break
	}
	if pt, ok := addr.Type().Underlying().(*types.Pointer); ok {
		return pt.Elem()
	}
	return def
}

// ---- range

func (fr *Frame) rangeInit(x *ssa.Range, st *State) {
	fc := fr.fc
	v := fr.get(x.X)
	switch t := x.X.Type().Underlying().(type) {
	case *types.Map:
		// ghost: arbitrary enumeration order of the key set: seq : Int -> K, n keys, each key once
		ks := fc.B.SortOf(t.Key())
		seq := fc.B.Fresh("mapseq", "(Array Int "+ks+")")
		n := fc.B.Fresh("mapn", "Int")
		ms := fc.mapSort(t)
		cur := "(select " + fc.heapOf(st, ms) + " " + v.T + ")"
		idxOf := "mapidx_" + strconv.Itoa(fc.B.n)
		fc.B.DeclFun(idxOf, []string{ks}, "Int")
		fc.B.Assert("(>= " + n + " 0)")
		fc.B.Assert(implies(eq(v.T, "0"), eq(n, "0")))
		// every listed key is in the map; every key in the map is listed exactly once (via idxOf inverse)
		fc.B.Assert(fmt.Sprintf("(forall ((i Int)) (! (=> (and (<= 0 i) (< i %s)) (and (select (m_dom %s) (select %s i)) (= (%s (select %s i)) i))) :pattern ((select %s i))))", n, cur, seq, idxOf, seq, seq))
		fc.B.Assert(fmt.Sprintf("(forall ((k %s)) (! (=> (select (m_dom %s) k) (and (<= 0 (%s k)) (< (%s k) %s) (= (select %s (%s k)) k))) :pattern ((%s k)) :pattern ((select (m_dom %s) k))))", ks, cur, idxOf, idxOf, n, seq, idxOf, idxOf, cur))
		gk := fmt.Sprintf("#mappos%d", len(fc.mapRanges)+1)
		fc.mapRanges = append(fc.mapRanges, mapRangeInfo{seq: seq, n: n, ghost: gk, keySort: ks, keyType: t.Key()})
		st.ghosts[gk] = "0"
		fr.vals[x] = Val{S: "Int", T: "0", Typ: x.Type(), Fn: &FnVal{Special: "maprange", Data: []Val{v, {S: "(Array Int " + ks + ")", T: seq}, {S: "Int", T: n}, {S: ms, T: cur, Typ: x.X.Type()}, {S: "String", T: gk}}}}
		fc.B.Note("map range modelled as an arbitrary-order enumeration of the key set at loop entry")
	case *types.Basic: // string
		fr.vals[x] = Val{S: "Int", T: "0", Typ: x.Type(), Fn: &FnVal{Special: "strrange", Data: []Val{v}}}
	default:
		fc.unsupported("range over %s", x.X.Type())
		fr.vals[x] = Val{S: "Int", T: "0", Typ: x.Type()}
	}
}

func (fr *Frame) rangeNext(x *ssa.Next, st *State, reach string) {
	fc := fr.fc
	it := fr.get(x.Iter)
	tup := x.Type().(*types.Tuple)
	if it.Fn != nil && it.Fn.Special == "maprange" {
		// the position in the ghost key sequence is loop-carried ghost state ("mappos<k>" in invariants):
		// Next reads it and advances it by one
		mt := it.Fn.Data[3].Typ.Underlying().(*types.Map)
		gk := it.Fn.Data[4].T
		pos, has := st.ghosts[gk]
		if !has {
			pos = "0"
		}
		n := it.Fn.Data[2].T
		seq := it.Fn.Data[1].T
		fc.B.Assert(implies(reach, and("(<= 0 "+pos+")", "(<= "+pos+" "+n+")")))
		ok := "(< " + pos + " " + n + ")"
		st.ghosts[gk] = fc.def("mappos", "Int", ite(ok, "(+ "+pos+" 1)", pos))
		k := fc.mkVal(mt.Key(), "(select "+seq+" "+pos+")")
		// value read from the *current* map (Go semantics: entries removed/changed during iteration are seen live)
		ms := fc.mapSort(mt)
		cur := "(select " + fc.heapOf(st, ms) + " " + it.Fn.Data[0].T + ")"
		v := fc.mkVal(mt.Elem(), "(select (m_val "+cur+") "+k.T+")")
		fc.assumeWF(k, reach)
		fc.assumeWF(v, reach)
		fr.vals[x] = Val{Tuple: []Val{{S: "Bool", T: ok, Typ: types.Typ[types.Bool]}, k, v}, Typ: tup, Fn: &FnVal{Special: "mapnext", Data: []Val{{S: "Int", T: pos}}}}
		fr.names["#mappos"] = nil
		fr.mapPos = pos
		return
	}
	fc.unsupported("range-next over string")
	fr.vals[x] = Val{Tuple: []Val{fc.freshVal(tup.At(0).Type(), "nx"), fc.freshVal(tup.At(1).Type(), "nx"), fc.freshVal(tup.At(2).Type(), "nx")}, Typ: tup}
}
