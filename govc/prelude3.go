package main

import (
	"go/types"
	"regexp"
)

// unmarshalEmpty: protobuf semantics — decoding the empty byte string yields the zero message. Together with
// unmarshal(marshal(v)) == v this gives "marshal(v) is empty only for the zero message".
func (fc *FnCtx) unmarshalEmpty(un string, t types.Type) {
	k := "unmarshal-empty:" + un
	if fc.B.inst[k] || t == nil {
		return
	}
	fc.B.inst[k] = true
	if _, ok := t.Underlying().(*types.Struct); !ok {
		return
	}
	fc.B.Assert(eq("("+un+" \"\")", fc.zero(t)))
}

// specAxiomsRelevant: axioms of uninterpreted (recursively specified) spec functions are emitted only when
// the contract under verification (or the lemma) mentions the function itself.
func (fc *FnCtx) specAxiomsRelevant(name string) bool {
	if fc.C == nil {
		return true
	}
	has := func(cs []Clause) bool {
		for _, c := range cs {
			if containsIdent(c.Src, name) {
				return true
			}
		}
		return false
	}
	if has(fc.C.Requires) || has(fc.C.Ensures) {
		return true
	}
	for _, inv := range fc.C.Invs {
		if has(inv) {
			return true
		}
	}
	return false
}

func containsIdent(s, id string) bool {
	for i := 0; i+len(id) <= len(s); i++ {
		if s[i:i+len(id)] != id {
			continue
		}
		before := i == 0 || !isIdentChar(s[i-1])
		after := i+len(id) == len(s) || !isIdentChar(s[i+len(id)])
		if before && after {
			return true
		}
	}
	return false
}

func isIdentChar(c byte) bool {
	return c == '_' || c >= '0' && c <= '9' || c >= 'a' && c <= 'z' || c >= 'A' && c <= 'Z'
}

var mapGhostRe = regexp.MustCompile(`^map(seq|n|pos)([0-9]+)$`)
