package main

import "go/types"

// unmarshalEmpty: protobuf semantics — decoding the empty byte string yields the zero message. Together with
// unmarshal(marshal(v)) == v this gives "marshal(v) is empty only for the zero message".
func (fc *FnCtx) unmarshalEmpty(un string, t types.Type) {
	k := "unmarshal-empty:" + un
	if fc.B.inst[k] || t == nil {
		return
	}
	fc.B.inst[k] = true
	if _, ok := t.Underlying().(*types.Struct); !ok {
		return
	}
	fc.B.Assert(eq("("+un+" \"\")", fc.zero(t)))
}
