package main

import (
	"fmt"
	"go/types"
	"os/exec"
	"sort"
	"strings"

	"golang.org/x/tools/go/ssa"
)

func runCmd(name string, args ...string) (string, error) {
	out, err := exec.Command(name, args...).CombinedOutput()
	return string(out), err
}

// VerifyFuncR: VerifyFunc plus, for obligations listed in restrict, a second obligation "<name>@restricted"
// that assumes the restricting formula (known-finding handling).
func VerifyFuncR(w *World, fn *ssa.Function, c *Contract, mode string, restrict map[string]string) *FnResult {
	restrictGlobal = restrict
	defer func() { restrictGlobal = nil }()
	return VerifyFunc(w, fn, c, mode)
}

var restrictGlobal map[string]string

func resolvePkg(w *World, short string) string {
	for path := range w.ByPath {
		if shortPkg(path) == short || path == short || strings.HasSuffix(path, "/"+short) {
			return path
		}
	}
	return short
}

// LemmaObl: a closed formula of the contract language; real Go functions it mentions are executed symbolically.
func LemmaObl(w *World, id string, l LemmaSpec) ([]*Obl, *FnResult) {
	name := "lemma." + id + "." + l.Name
	fc := NewFnCtx(w, nil, nil, "contract")
	fc.B.DecFull = l.DecFull
	res := &FnResult{Fn: name}
	var obl *Obl
	func() {
		defer func() {
			if r := recover(); r != nil {
				fc.unsup = append(fc.unsup, fmt.Sprintf("engine panic in lemma: %v", r))
			}
		}()
		e, err := ParseExpr(l.Src)
		if err != nil {
			fc.unsupported("lemma parse: %v", err)
			return
		}
		st := State{heaps: map[string]string{}, ghosts: map[string]string{}, calls: map[string]string{}}
		fc.B.Raw("(declare-const Worlds0 (Array Int WorldS))")
		st.worlds = "Worlds0"
		env := &Env{fc: fc, vars: map[string]Val{}, cur: &st, old: &st, pkgPath: resolvePkg(w, l.Pkg)}
		// skolemise leading universal quantifiers
		for {
			q, ok := e.(*EQuant)
			if !ok || !q.Forall {
				break
			}
			for _, v := range q.Vars {
				s, t := env.typeByName(v.Type)
				c := fc.B.Fresh("sk_"+v.Name, s)
				val := Val{S: s, T: c, Typ: t}
				if t != nil {
					fc.assumeWF(val, "true")
				}
				env.vars[v.Name] = val
				fc.modelVars = append(fc.modelVars, ModelVar{Name: v.Name, Term: c, Sort: s})
			}
			e = q.Body
		}
		g := fc.evalBool(env, e)
		obl = &Obl{Name: name, Kind: "lemma", Expect: "unsat", Src: l.Src, Fn: name, ModelVars: fc.modelVars}
		obl.Script = fc.B.Script() + "(assert " + simplifyLine(not(g)) + ")\n(check-sat)\n"
	}()
	var out []*Obl
	if obl != nil {
		out = append(out, obl)
	}
	if len(fc.unsup) > 0 {
		out = append(out, &Obl{Name: name + "#supported", Kind: "lemma", Script: "(assert true)\n(check-sat)\n", Expect: "unsat", Fn: name, Src: "unsupported: " + strings.Join(uniq(fc.unsup), "; ")})
	}
	res.Inlined = keys(fc.inlined)
	res.Opaque = keys(fc.opaque)
	res.Notes = keys(fc.B.Notes)
	res.Trusted = keys(fc.trusted)
	return out, res
}

// ---- census

func staticOK(ok bool) string {
	if ok {
		return "(assert false)\n(check-sat)\n"
	}
	return "(assert true)\n(check-sat)\n"
}

func isTestFile(w *World, fn *ssa.Function) bool {
	if !fn.Pos().IsValid() {
		return false
	}
	f := w.Fset.Position(fn.Pos()).Filename
	return strings.HasSuffix(f, "_test.go") || strings.Contains(f, "/testing/") || strings.Contains(f, "/simulation/")
}

// callersOf returns the qualified names of in-module, non-test functions containing a static call
// (or a function-value reference) to target.
func callersOf(w *World, target *ssa.Function) []string {
	set := map[string]bool{}
	for _, fn := range w.Funcs {
		visitFuncs(fn, func(f *ssa.Function) {
			if isTestFile(w, f) {
				return
			}
			for _, b := range f.Blocks {
				for _, in := range b.Instrs {
					var ops [16]*ssa.Value
					for _, op := range in.Operands(ops[:0]) {
						if op == nil || *op == nil {
							continue
						}
						if g, ok := (*op).(*ssa.Function); ok && (g == target || g.Origin() == target) {
							set[QualName(fn)] = true
						}
					}
				}
			}
		})
	}
	return keys(set)
}

func visitFuncs(fn *ssa.Function, f func(*ssa.Function)) {
	f(fn)
	for _, a := range fn.AnonFuncs {
		visitFuncs(a, f)
	}
}

// keyWriters: functions containing a KV-store Set/Delete whose key argument is (syntactically) the result of a call to builder.
func keyWriters(w *World, builder *ssa.Function, methods map[string]bool) []string {
	set := map[string]bool{}
	for _, fn := range w.Funcs {
		visitFuncs(fn, func(f *ssa.Function) {
			if isTestFile(w, f) {
				return
			}
			for _, b := range f.Blocks {
				for _, in := range b.Instrs {
					c, ok := in.(ssa.CallInstruction)
					if !ok {
						continue
					}
					cc := c.Common()
					if !cc.IsInvoke() || !methods[cc.Method.Name()] || len(cc.Args) == 0 {
						continue
					}
					if keyFrom(cc.Args[0], builder, 0) {
						set[QualName(fn)] = true
					}
				}
			}
		})
	}
	return keys(set)
}

func keyFrom(v ssa.Value, builder *ssa.Function, depth int) bool {
	if depth > 4 {
		return false
	}
	switch x := v.(type) {
	case *ssa.Call:
		if x.Call.StaticCallee() == builder {
			return true
		}
	case *ssa.Phi:
		for _, e := range x.Edges {
			if keyFrom(e, builder, depth+1) {
				return true
			}
		}
	case *ssa.Convert:
		return keyFrom(x.X, builder, depth+1)
	case *ssa.ChangeType:
		return keyFrom(x.X, builder, depth+1)
	}
	return false
}

func CensusObl(w *World, id string, c CensusSpec) []*Obl {
	name := "census." + id + "." + c.Name
	mk := func(ok bool, src string) []*Obl {
		return []*Obl{{Name: name, Kind: "census", Script: staticOK(ok), Expect: "unsat", Src: src, Fn: name}}
	}
	switch c.Kind {
	case "callers", "writers", "deleters":
		if len(c.Args) < 1 {
			return mk(false, "census needs a target")
		}
		target, err := w.FindFunc(c.Args[0])
		if err != nil {
			return mk(false, err.Error())
		}
		var got []string
		switch c.Kind {
		case "callers":
			got = callersOf(w, target)
		case "writers":
			got = keyWriters(w, target, map[string]bool{"Set": true})
		case "deleters":
			got = keyWriters(w, target, map[string]bool{"Delete": true})
		}
		allowed := map[string]bool{}
		for _, a := range c.Args[1:] {
			if f, err := w.FindFunc(a); err == nil {
				allowed[QualName(f)] = true
			} else {
				return mk(false, "allowed function missing: "+err.Error())
			}
		}
		var extra []string
		for _, g := range got {
			if !allowed[g] {
				extra = append(extra, g)
			}
		}
		sort.Strings(extra)
		if len(extra) > 0 {
			return mk(false, fmt.Sprintf("%s of %s outside the contracted set: %v", c.Kind, c.Args[0], extra))
		}
		return mk(true, fmt.Sprintf("%s of %s are exactly within %v (found %v)", c.Kind, c.Args[0], c.Args[1:], got))
	}
	if c.Kind == "impl" {
		// closed world: the only concrete named types of the loaded (non-test) packages that implement the
		// interface are the listed ones
		if len(c.Args) < 2 {
			return mk(false, "impl census needs an interface and at least one type")
		}
		it := w.lookupType(c.Args[0])
		if it == nil {
			return mk(false, "interface "+c.Args[0]+" not found")
		}
		iface, ok := it.Underlying().(*types.Interface)
		if !ok {
			return mk(false, c.Args[0]+" is not an interface")
		}
		allowed := map[string]bool{}
		for _, a := range c.Args[1:] {
			allowed[strings.TrimPrefix(a, "*")] = true
		}
		var extra, found []string
		for path, p := range w.ByPath {
			if strings.Contains(path, "/testing") || strings.Contains(path, "/mock") || strings.Contains(path, "/simulation") {
				continue
			}
			sc := p.Types.Scope()
			for _, n := range sc.Names() {
				tn, ok := sc.Lookup(n).(*types.TypeName)
				if !ok || tn.IsAlias() {
					continue
				}
				if _, isI := tn.Type().Underlying().(*types.Interface); isI {
					continue
				}
				if f := w.Fset.Position(tn.Pos()).Filename; strings.HasSuffix(f, "_test.go") {
					continue
				}
				if types.Implements(tn.Type(), iface) || types.Implements(types.NewPointer(tn.Type()), iface) {
					q := shortPkg(path) + "." + n
					found = append(found, q)
					if !allowed[q] {
						extra = append(extra, q)
					}
				}
			}
		}
		sort.Strings(extra)
		sort.Strings(found)
		if len(extra) > 0 {
			return mk(false, fmt.Sprintf("types implementing %s outside the declared set: %v", c.Args[0], extra))
		}
		return mk(true, fmt.Sprintf("implementations of %s in modules/...: %v", c.Args[0], found))
	}
	return mk(false, "unknown census kind "+c.Kind)
}

func tryReplay(w *World, o *Obl, r SolveResult) string { return "" }
