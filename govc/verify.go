package main

import (
	"fmt"
	"go/types"
	"os"
	"runtime/debug"
	"sort"
	"strconv"
	"strings"

	"golang.org/x/tools/go/ssa"
)

type pendingObl struct {
	name, kind, goal, src, expect string
	drop                          string // marker of a script line to leave out (the site's own abort assumption)
	dropLemmasFrom                int    // >0: leave out the assumptions of lemmas number >= this (a lemma is proved from the earlier ones only)
	dropUsesFrom                  int    // >0: leave out the conclusions of lemma applications number >= this
	dropAbortsFrom                int    // >0: leave out the "did not abort here" assumptions of safety sites number >= this
	upto                          int    // >0: only the first `upto` script lines (a lemma is proved from what precedes it: fewer assumptions, smaller query)
}

func scriptWithout(base, marker string, lemmasFrom, usesFrom, abortsFrom int) string {
	if marker == "" && lemmasFrom == 0 && usesFrom == 0 && abortsFrom == 0 {
		return base
	}
	lines := strings.Split(base, "\n")
	out := lines[:0:0]
	for _, l := range lines {
		if marker != "" {
			skip := false
			for _, m := range strings.Split(marker, "|") {
				if strings.HasSuffix(l, m) {
					skip = true
				}
			}
			if skip {
				continue
			}
		}
		if lemmasFrom > 0 {
			if i := strings.LastIndex(l, ";;lemma:"); i >= 0 {
				if k, err := strconv.Atoi(strings.TrimSuffix(l[i+len(";;lemma:"):], ";")); err == nil && k >= lemmasFrom {
					continue
				}
			}
		}
		if abortsFrom > 0 {
			if i := strings.LastIndex(l, ";;abort:"); i >= 0 {
				if k, err := strconv.Atoi(strings.TrimSuffix(l[i+len(";;abort:"):], ";")); err == nil && k >= abortsFrom {
					continue
				}
			}
		}
		if usesFrom > 0 {
			if i := strings.LastIndex(l, ";;use:"); i >= 0 {
				if k, err := strconv.Atoi(strings.TrimSuffix(l[i+len(";;use:"):], ";")); err == nil && k >= usesFrom {
					continue
				}
			}
		}
		out = append(out, l)
	}
	return strings.Join(out, "\n")
}

// applyLemmas: the explicit lemma applications of the contract at one site (a loop's back edge, or function exit
// for loop 0). For `use L(args)` with L: forall xs :: P ==> C, the instance P[args] is an obligation (proved without
// the conclusions of this and later applications) and C[args] is assumed under the site's path condition.
func (fc *FnCtx) applyLemmas(env *Env, loop int, cond string) {
	if fc.C == nil {
		return
	}
	for _, u := range fc.C.Uses {
		if u.Loop != loop {
			continue
		}
		var lem *Clause
		for i := range fc.C.Lemmas {
			if fc.C.Lemmas[i].Label == u.Label {
				lem = &fc.C.Lemmas[i]
			}
		}
		if lem == nil {
			fc.unsupported("use: no lemma named %s", u.Label)
			continue
		}
		var vars []QVar
		if lem.Induct != "" {
			vars = append(vars, QVar{Name: lem.Induct, Type: "int"})
		}
		body := lem.E
		for {
			q, ok := body.(*EQuant)
			if !ok || !q.Forall {
				break
			}
			vars = append(vars, q.Vars...)
			body = q.Body
		}
		call := u.E.(*ECall)
		if len(call.Args) != len(vars) {
			fc.unsupported("use %s: %d arguments for %d lemma variables", u.Label, len(call.Args), len(vars))
			continue
		}
		saved := map[string]*Val{}
		var argVals []Val
		for _, a := range call.Args {
			argVals = append(argVals, env.eval(a))
		}
		for i, v := range vars {
			if old, ok := env.vars[v.Name]; ok {
				o := old
				saved[v.Name] = &o
			} else {
				saved[v.Name] = nil
			}
			av := argVals[i]
			if srt, typ := env.typeByName(v.Type); srt != "" && av.S == srt && typ != nil {
				av.Typ = typ
			}
			env.vars[v.Name] = av
		}
		prem, concl := Expr(&ELit{Kind: "bool", Val: "true"}), body
		if b, ok := body.(*EBinary); ok && b.Op == "==>" {
			prem, concl = b.X, b.Y
		}
		fc.useN++
		k := fc.useN
		p := fc.evalBool(env, prem)
		if lem.Induct != "" {
			p = and("(>= "+env.vars[lem.Induct].T+" 0)", p)
		}
		c := fc.evalBool(env, concl)
		env.triggers = nil
		for name, v := range saved {
			if v == nil {
				delete(env.vars, name)
			} else {
				env.vars[name] = *v
			}
		}
		site := "return"
		if loop > 0 {
			site = fmt.Sprintf("loop%d", loop)
		}
		fc.pending = append(fc.pending, pendingObl{name: fmt.Sprintf("#use.%s.%s.%d.premises", site, u.Label, k), kind: "body", goal: and(cond, not(p)), src: "premises of " + u.Src, expect: "unsat", dropUsesFrom: k})
		fc.B.Raw(fmt.Sprintf("(assert %s) ;;use:%d;", implies(cond, c), k))
	}
}

func (fc *FnCtx) addObl(name, kind, negGoal, src string) {
	// names are unique per function: a second obligation with the same name (e.g. a second back edge of a loop) gets a suffix
	n := 0
	for _, p := range fc.pending {
		if p.name == name || strings.HasPrefix(p.name, name+"~") {
			n++
		}
	}
	if n > 0 {
		name = fmt.Sprintf("%s~%d", name, n+1)
	}
	fc.pending = append(fc.pending, pendingObl{name: name, kind: kind, goal: negGoal, src: src, expect: "unsat"})
}

func (fc *FnCtx) addCover(name, cond, src string) {
	fc.pending = append(fc.pending, pendingObl{name: name, kind: "cover", goal: cond, src: src, expect: "sat"})
}

func NewFnCtx(w *World, fn *ssa.Function, c *Contract, mode string) *FnCtx {
	return &FnCtx{W: w, B: NewSMT(w), Top: fn, C: c, Mode: mode, opaque: map[string]bool{}, inlined: map[string]bool{}, dropped: map[string]bool{},
		usedCtr: map[string]bool{}, trusted: map[string]bool{}, heapInit: map[string]string{}, callN: map[string]int{}}
}

// FnResult: everything produced for one function under contract.
type FnResult struct {
	Fn       string
	Obls     []*Obl
	Opaque   []string
	Inlined  []string
	Dropped  []string
	Trusted  []string
	Notes    []string
	Unsup    []string
	UsedCtr  []string
	Instrs   int
}

func keys(m map[string]bool) []string {
	var out []string
	for k := range m {
		out = append(out, k)
	}
	sort.Strings(out)
	return out
}

// VerifyFunc generates all obligations for fn against its contract.
func VerifyFunc(w *World, fn *ssa.Function, c *Contract, mode string) (res *FnResult) {
	fc := NewFnCtx(w, fn, c, mode)
	if c != nil && c.Flags["decfull"] {
		fc.B.DecFull = true
	}
	if c != nil && c.Flags["splittail"] {
		fc.B.SplitTail = true
	}
	if c != nil && c.Flags["splitext"] {
		fc.B.SplitExt = true
	}
	if c != nil && c.Flags["splitrec"] {
		fc.B.SplitRec = true
	}
	qn := QualName(fn)
	res = &FnResult{Fn: qn, Instrs: instrCount(fn)}
	defer func() {
		if r := recover(); r != nil {
			if os.Getenv("VERIF_DEBUG") != "" {
				debug.PrintStack()
			}
			fc.unsup = append(fc.unsup, fmt.Sprintf("engine panic: %v", r))
			res.Unsup = fc.unsup
			res.Obls = []*Obl{{Name: qn + "#engine", Kind: "body", Script: "(assert true)(check-sat)\n", Expect: "unsat", Fn: qn, Src: fmt.Sprintf("engine panic: %v", r)}}
		}
	}()
	st := State{heaps: map[string]string{}, ghosts: map[string]string{}, calls: map[string]string{}}
	fc.B.Raw("(declare-const Worlds0 (Array Int WorldS))")
	st.worlds = "Worlds0"
	// parameters
	var args []Val
	for _, p := range fn.Params {
		v := fc.freshVal(p.Type(), "p_"+p.Name())
		if _, ok := p.Type().Underlying().(*types.Pointer); ok {
			fc.B.Assert(or(eq(v.T, "0"), "(alive0 "+v.T+")"))
			if mode == "safety" && fn.Signature.Recv() != nil && len(args) == 0 {
				// sweep assumption: a method is not invoked on a nil receiver
				fc.B.Assert(not(eq(v.T, "0")))
				fc.trusted["sweep assumption: pointer receivers are not nil"] = true
			}
		}
		fc.paramPointersAlive(p.Type(), v.T, 0)
		if v.S == "Ctx" {
			fc.B.Assert("(br_alive0 (c_br " + v.T + "))")
		}
		if v.S == "View" {
			fc.B.Assert("(br_alive0 (v_br " + v.T + "))")
		}
		args = append(args, v)
		fc.modelVars = append(fc.modelVars, ModelVar{Name: p.Name(), Term: v.T, Sort: v.S})
	}
	fr := fc.newFrame(fn, 0, "true")
	fr.isTop = true
	entry := st.clone()
	if c != nil {
		env := fc.contractEnv(fn, args, nil, &entry, &entry)
		env.pkgPath = c.PkgPath
		for _, l := range c.Lets {
			env.vars[l.Name] = env.eval(l.E)
		}
		fc.lets = env.vars
		for _, l := range c.Lets {
			if v := env.vars[l.Name]; v.S == "Int" || v.S == "String" || v.S == "Bool" {
				fc.modelVars = append(fc.modelVars, ModelVar{Name: "let " + l.Name, Term: v.T, Sort: v.S})
			}
		}
		for _, r := range c.Requires {
			fc.B.AssertNamed(fc.evalBool(env, r.E), "requires "+r.Src)
		}
		// vacuity: the precondition must be satisfiable
		if len(c.Requires) > 0 {
			fc.addCover("#vacuity.requires", "true", "requires satisfiable")
		}
		// lemmas: facts over the parameters (entry state), each proved from the preconditions and the earlier
		// lemmas, then available to every other obligation of the function
		for i, l := range c.Lemmas {
			if l.Induct != "" {
				// proof by induction on the int variable: base (k = 0) and step (k0 >= 0, lemma at k0 |- lemma at k0+1)
				k := l.Induct
				env.vars[k] = Val{S: "Int", T: "0", Typ: types.Typ[types.Int]}
				g0 := fc.evalGoal(env, l.E)
				fc.pending = append(fc.pending, pendingObl{name: "#lemma." + clauseName(l, i) + ".base", kind: "body", goal: not(g0), src: k + " = 0: " + l.Src, expect: "unsat", dropLemmasFrom: i + 1, dropUsesFrom: 1})
				k0 := fc.B.Fresh("ind_"+k, "Int")
				env.vars[k] = Val{S: "Int", T: k0, Typ: types.Typ[types.Int]}
				hyp := fc.evalBool(env, l.E)
				env.vars[k] = Val{S: "Int", T: "(+ " + k0 + " 1)", Typ: types.Typ[types.Int]}
				g1 := fc.evalGoal(env, l.E)
				fc.pending = append(fc.pending, pendingObl{name: "#lemma." + clauseName(l, i) + ".step", kind: "body", goal: and("(>= "+k0+" 0)", hyp, not(g1)), src: k + " -> " + k + "+1: " + l.Src, expect: "unsat", dropLemmasFrom: i + 1, dropUsesFrom: 1})
				delete(env.vars, k)
				all := &EQuant{Forall: true, Vars: []QVar{{Name: k, Type: "int"}}, Body: &EBinary{Op: "==>", X: &EBinary{Op: ">=", X: &EIdent{Name: k}, Y: &ELit{Kind: "int", Val: "0"}}, Y: l.E}}
				a := fc.evalBool(env, all)
				fc.B.Raw(fmt.Sprintf("(assert %s) ;;lemma:%d;", a, i+1))
				continue
			}
			g := fc.evalGoal(env, l.E)
			fc.pending = append(fc.pending, pendingObl{name: "#lemma." + clauseName(l, i), kind: "body", goal: not(g), src: l.Src, expect: "unsat", dropLemmasFrom: i + 1, dropUsesFrom: 1, upto: len(fc.B.lines)})
			a := fc.evalBool(env, l.E)
			fc.B.Raw(fmt.Sprintf("(assert %s) ;;lemma:%d;", a, i+1))
		}
	}
	results, out, retCond := fr.exec(args, nil, st)
	for i, r := range results {
		if r.T != "" && !strings.Contains(r.S, "Array") {
			fc.modelVars = append(fc.modelVars, ModelVar{Name: fmt.Sprintf("result%d", i), Term: r.T, Sort: r.S})
		}
	}
	if c != nil && mode == "contract" {
		env := fc.contractEnv(fn, args, results, &entry, &out)
		env.pkgPath = c.PkgPath
		for k, v := range fc.lets {
			if _, ok := env.vars[k]; !ok {
				env.vars[k] = v
			}
		}
		fc.applyLemmas(env, 0, retCond)
		for i, en := range c.Ensures {
			g := fc.evalGoal(env, en.E)
			fc.addObl("#ens."+clauseName(en, i), "body", and(retCond, not(g)), en.Src)
		}
		// frame: worlds other than those named in modifies are unchanged
		fc.frameObl(c, env, &entry, &out, retCond)
		fc.addCover("#cover.return", retCond, "some normal return is reachable")
		if c.Flags["nopanic"] {
			fc.safetyObls()
		}
	}
	if mode == "safety" {
		fc.safetyObls()
		fc.addCover("#cover.return", retCond, "some normal return is reachable")
	}
	// assemble scripts
	base := fc.B.Script()
	for _, p := range fc.pending {
		o := &Obl{Name: qn + p.name, Kind: p.kind, Expect: p.expect, Src: p.src, Fn: qn, ModelVars: fc.modelVars}
		b0 := base
		if p.upto > 0 && p.upto < len(fc.B.lines) {
			b0 = strings.Join(simplifyScript(fc.B.lines[:p.upto]), "\n") + "\n"
		}
		o.Script = scriptWithout(b0, p.drop, p.dropLemmasFrom, p.dropUsesFrom, p.dropAbortsFrom) + "(assert " + simplifyLine(p.goal) + ")\n(check-sat)\n"
		res.Obls = append(res.Obls, o)
		if rs, ok := restrictGlobal[o.Name]; ok && c != nil {
			if re, err := ParseExpr(rs); err == nil {
				entry2 := entry.clone()
				env := fc.contractEnv(fn, args, nil, &entry2, &entry2)
				env.pkgPath = c.PkgPath
				for k, v := range fc.lets {
					if _, ok := env.vars[k]; !ok {
						env.vars[k] = v
					}
				}
				rt := fc.evalBool(env, re)
				ro := &Obl{Name: o.Name + "@restricted", Kind: p.kind, Expect: p.expect, Src: "under restriction: " + rs, Fn: qn}
				ro.Script = fc.B.Script() + "(assert " + rt + ")\n(assert " + p.goal + ")\n(check-sat)\n"
				res.Obls = append(res.Obls, ro)
			}
		}
	}
	if len(fc.unsup) > 0 {
		// an unsupported construct makes the function undecided: a failing obligation that names it
		res.Obls = append(res.Obls, &Obl{Name: qn + "#supported", Kind: "body", Script: "(assert true)\n(check-sat)\n", Expect: "unsat", Fn: qn, Src: "unsupported: " + strings.Join(uniq(fc.unsup), "; ")})
	}
	res.Opaque = keys(fc.opaque)
	res.Inlined = keys(fc.inlined)
	res.Dropped = keys(fc.dropped)
	res.Trusted = keys(fc.trusted)
	res.Notes = keys(fc.B.Notes)
	res.Unsup = uniq(fc.unsup)
	res.UsedCtr = keys(fc.usedCtr)
	return res
}

// evalGoal evaluates a formula in goal position: leading universal quantifiers are skolemised
// (fresh constants), which keeps the library axioms ground.
func (fc *FnCtx) evalGoal(env *Env, e Expr) string {
	var bound []string
	for {
		q, ok := e.(*EQuant)
		if !ok || !q.Forall {
			break
		}
		for _, v := range q.Vars {
			s, t := env.typeByName(v.Type)
			c := fc.B.Fresh("sk_"+v.Name, s)
			val := Val{S: s, T: c, Typ: t}
			if t != nil {
				fc.assumeWF(val, "true")
			}
			env.vars[v.Name] = val
			bound = append(bound, v.Name)
		}
		e = q.Body
	}
	g := fc.evalBool(env, e)
	for _, b := range bound {
		delete(env.vars, b)
	}
	return g
}

func uniq(in []string) []string {
	seen := map[string]bool{}
	var out []string
	for _, s := range in {
		if !seen[s] {
			seen[s] = true
			out = append(out, s)
		}
	}
	return out
}

func (fc *FnCtx) safetyObls() {
	if len(fc.safetySites) > 40 {
		// many sites (long validation functions): the sites are checked in groups of ten - one query asks whether
		// any site of the group can fail (the group's own "did not abort here" assumptions are left out)
		const g = 10
		for lo := 0; lo < len(fc.safetySites); lo += g {
			hi := lo + g
			if hi > len(fc.safetySites) {
				hi = len(fc.safetySites)
			}
			var conds, descr []string
			seen := map[string]bool{}
			for i := lo; i < hi; i++ {
				s := fc.safetySites[i]
				conds = append(conds, s.cond)
				if d := s.kind + " at " + s.pos; !seen[d] {
					seen[d] = true
					descr = append(descr, d)
				}
			}
			fc.pending = append(fc.pending, pendingObl{name: fmt.Sprintf("#safe.group.%d-%d", lo+1, hi), kind: "safety", goal: or(conds...), src: strings.Join(descr, "; "), expect: "unsat", dropAbortsFrom: lo + 1})
		}
	} else {
		for i, s := range fc.safetySites {
			fc.pending = append(fc.pending, pendingObl{name: fmt.Sprintf("#safe.%s.%d", s.kind, i+1), kind: "safety", goal: s.cond, src: s.kind + " at " + s.pos, expect: "unsat", dropAbortsFrom: i + 1})
		}
	}
	n := 0
	for _, p := range fc.panicSites {
		if p.desc == "type assertion" {
			continue // already a safety site
		}
		n++
		fc.addObl(fmt.Sprintf("#safe.panic.%d", n), "safety", p.cond, "explicit panic at "+p.pos)
	}
}

// frameObl: every pre-existing branch whose context is not named in a modifies clause keeps its world;
// every heap object of a sort not written stays equal (trivially true when the heap term is unchanged).
func (fc *FnCtx) frameObl(c *Contract, env *Env, entry, out *State, retCond string) {
	if entry.worlds == out.worlds {
		return
	}
	var exempt []string
	for _, m := range c.Modifies {
		if strings.HasPrefix(m, "world(") && strings.HasSuffix(m, ")") {
			e, err := ParseExpr(m[6 : len(m)-1])
			if err != nil {
				continue
			}
			saved := env.inOld
			env.inOld = true
			v := env.eval(e)
			env.inOld = saved
			switch v.S {
			case "Ctx":
				exempt = append(exempt, "(c_br "+v.T+")")
			case "View":
				exempt = append(exempt, "(v_br "+v.T+")")
			}
		}
	}
	b := fc.B.Fresh("frame_br", "Int")
	conds := []string{retCond, "(br_alive0 " + b + ")"}
	for _, x := range exempt {
		conds = append(conds, not(eq(b, x)))
	}
	conds = append(conds, not(eq("(select "+out.worlds+" "+b+")", "(select "+entry.worlds+" "+b+")")))
	fc.addObl("#frame.worlds", "body", and(conds...), "only the worlds named in modifies change")
}

// paramPointersAlive: pointers stored inside a parameter value (elements of a slice of pointers, pointer
// fields of a struct, two levels deep) refer to objects that existed at function entry (or are nil) - they
// can never coincide with an object the function allocates itself.
func (fc *FnCtx) paramPointersAlive(t types.Type, term string, depth int) {
	if depth > 2 || t == nil {
		return
	}
	switch u := types.Unalias(t).Underlying().(type) {
	case *types.Slice:
		if isByte(u.Elem()) {
			return
		}
		switch u.Elem().Underlying().(type) {
		case *types.Pointer, *types.Map:
			fc.B.Assert(fmt.Sprintf("(forall ((i Int)) (! (or (= (select (s_arr %s) i) 0) (alive0 (select (s_arr %s) i))) :pattern ((select (s_arr %s) i))))", term, term, term))
		}
	case *types.Struct:
		if _, ok := fc.B.structs[fc.B.SortOf(t)]; !ok {
			return
		}
		info := fc.B.structs[fc.B.SortOf(t)]
		for _, f := range info.fields {
			sel := "(" + f.sel + " " + term + ")"
			switch f.typ.Underlying().(type) {
			case *types.Pointer, *types.Map:
				fc.B.Assert(or(eq(sel, "0"), "(alive0 "+sel+")"))
			default:
				fc.paramPointersAlive(f.typ, sel, depth+1)
			}
		}
	}
}
