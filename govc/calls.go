package main

import (
	"fmt"
	"go/types"
	"regexp"
	"strings"

	"golang.org/x/tools/go/ssa"
)

type effects struct {
	worlds bool
	all    bool
	heaps  map[string]bool
	ghosts map[string]bool
	// localHeaps: heap sorts in which the code only allocates objects and writes to objects it allocated itself
	localHeaps map[string]bool
}

const maxInlineDepth = 6
const maxInlineInstrs = 400

func (fc *FnCtx) contractFor(fn *ssa.Function) *Contract {
	if fn == nil {
		return nil
	}
	return fc.W.Contracts.ByTarget[QualName(fn)]
}

func (fc *FnCtx) ifaceContract(recv types.Type, method string) *Contract {
	n, ok := types.Unalias(recv).(*types.Named)
	if !ok || n.Obj().Pkg() == nil {
		return nil
	}
	c := fc.W.Contracts.ByTarget[shortPkg(n.Obj().Pkg().Path())+"."+n.Obj().Name()+"."+method]
	if c != nil && c.Iface {
		return c
	}
	return nil
}

func inModule(fn *ssa.Function) bool {
	if fn.Pkg == nil {
		if fn.Object() != nil && fn.Object().Pkg() != nil {
			return strings.HasPrefix(fn.Object().Pkg().Path(), "github.com/cosmos/ibc-go/")
		}
		return false
	}
	return strings.HasPrefix(fn.Pkg.Pkg.Path(), "github.com/cosmos/ibc-go/")
}

func hasLoops(fn *ssa.Function) bool {
	for _, b := range fn.Blocks {
		for _, s := range b.Succs {
			if isBackEdge(b, s) {
				return true
			}
		}
	}
	return false
}

func instrCount(fn *ssa.Function) int {
	n := 0
	for _, b := range fn.Blocks {
		for _, in := range b.Instrs {
			if _, dbg := in.(*ssa.DebugRef); !dbg {
				n++
			}
		}
	}
	return n
}

func (fc *FnCtx) inlinable(fn *ssa.Function, depth int) bool {
	if fn == nil || len(fn.Blocks) == 0 || !inModule(fn) {
		return false
	}
	if depth >= maxInlineDepth {
		return false
	}
	if hasLoops(fn) {
		if c := fc.contractFor(fn); c != nil && c.Flags["inline"] {
			return true
		}
		return false
	}
	if instrCount(fn) > maxInlineInstrs {
		return false
	}
	for _, b := range fn.Blocks {
		for _, in := range b.Instrs {
			switch in.(type) {
			case *ssa.Go, *ssa.Select, *ssa.Send, *ssa.MakeChan:
				return false
			}
		}
	}
	return true
}

// pure-by-package: logging, events, telemetry, metrics (assumption A-pure)
func isStorePurePkg(path string) bool {
	for _, p := range []string{"telemetry", "go-metrics", "cosmossdk.io/log", "/metrics", "log/slog", "github.com/hashicorp/go-metrics"} {
		if strings.Contains(path, p) {
			return true
		}
	}
	return false
}

func fnPkgPath(fn *ssa.Function) string {
	if fn.Pkg != nil {
		return fn.Pkg.Pkg.Path()
	}
	if fn.Object() != nil && fn.Object().Pkg() != nil {
		return fn.Object().Pkg().Path()
	}
	return ""
}

func (fc *FnCtx) callEffects(cc *ssa.CallCommon) effects {
	eff := effects{heaps: map[string]bool{}, ghosts: map[string]bool{}, localHeaps: map[string]bool{}}
	addArgs := func() {
		args := cc.Args
		if cc.IsInvoke() {
			args = append([]ssa.Value{cc.Value}, args...)
		}
		for _, a := range args {
			s := fc.B.SortOf(a.Type())
			if s == "Ctx" || s == "View" {
				eff.worlds = true
			}
			if pt, ok := a.Type().Underlying().(*types.Pointer); ok {
				eff.heaps[fc.B.SortOf(rootElem(a, pt.Elem()))] = true
			}
			if mi, ok := a.(*ssa.MakeInterface); ok {
				if pt, ok := mi.X.Type().Underlying().(*types.Pointer); ok {
					eff.heaps[fc.B.SortOf(rootElem(mi.X, pt.Elem()))] = true
				}
			}
			if mt, ok := a.Type().Underlying().(*types.Map); ok {
				eff.heaps[fc.mapSort(mt)] = true
			}
		}
	}
	if cc.IsInvoke() {
		if c := fc.ifaceContract(cc.Value.Type(), cc.Method.Name()); c != nil {
			fc.contractEffects(c, &eff)
			return eff
		}
		if fc.B.SortOf(cc.Value.Type()) == "View" {
			switch cc.Method.Name() {
			case "Set", "Delete":
				eff.worlds = true
			}
			return eff
		}
		if _, ok := invokePrelude["*."+cc.Method.Name()]; ok {
			return eff
		}
		if _, ok := invokePrelude[ifaceKey(cc.Value.Type())+"."+cc.Method.Name()]; ok {
			addArgs()
			eff.worlds = false
			return eff
		}
		addArgs()
		return eff
	}
	if b, ok := cc.Value.(*ssa.Builtin); ok {
		_ = b
		return eff
	}
	callee := cc.StaticCallee()
	if callee == nil {
		// a call through a function value: like every opaque call it can change only what is reachable through
		// its arguments (A-ctx) - the same havoc the executor applies at the call site
		addArgs()
		return eff
	}
	if c := fc.contractFor(callee); c != nil {
		fc.contractEffects(c, &eff)
		return eff
	}
	if p, ok := staticPrelude[callee.String()]; ok {
		if p.writesPtrArgs {
			addArgs()
			eff.worlds = false
		}
		if p.writesWorld {
			eff.worlds = true
		}
		return eff
	}
	if isStorePurePkg(fnPkgPath(callee)) {
		return eff
	}
	if fc.inlinable(callee, 0) {
		// over-approximate by the syntactic effects of the body (one level) plus argument effects
		sub := (&Frame{fc: fc, fn: callee}).modSetAll()
		for h := range sub.heaps {
			eff.heaps[h] = true
		}
		for h := range sub.localHeaps {
			eff.localHeaps[h] = true
		}
		for g := range sub.ghosts {
			eff.ghosts[g] = true
		}
		eff.worlds = eff.worlds || sub.worlds
		eff.all = eff.all || sub.all
		return eff
	}
	addArgs()
	return eff
}

var emitEventRe = regexp.MustCompile(`^(emit|Emit)[A-Z].*Events?$`)

var modSetDepth = 0

func (fr *Frame) modSetAll() modSet {
	modSetDepth++
	defer func() { modSetDepth-- }()
	if modSetDepth > 6 {
		return modSet{worlds: true, heaps: map[string]bool{}, ghosts: map[string]bool{}, localHeaps: map[string]bool{}}
	}
	body := map[int]*ssa.BasicBlock{}
	for _, b := range fr.fn.Blocks {
		body[b.Index] = b
	}
	return fr.modSet(body)
}

func (fc *FnCtx) contractEffects(c *Contract, eff *effects) {
	for _, m := range c.Modifies {
		switch {
		case strings.HasPrefix(m, "world"):
			eff.worlds = true
		case strings.HasPrefix(m, "ghost "):
			eff.ghosts[strings.TrimSpace(m[6:])] = true
		case strings.HasPrefix(m, "calls "):
			eff.ghosts["#calls:"+strings.TrimSpace(m[6:])] = true
		case strings.HasPrefix(m, "heap "):
			eff.heaps[strings.TrimSpace(m[5:])] = true
		case m == "all":
			eff.all = true
		}
	}
}

func ifaceKey(t types.Type) string {
	t = types.Unalias(t)
	if n, ok := t.(*types.Named); ok && n.Obj().Pkg() != nil {
		return n.Obj().Pkg().Path() + "." + n.Obj().Name()
	}
	return t.String()
}

// call dispatches one call site.
func (fr *Frame) call(instr ssa.Value, cc *ssa.CallCommon, st *State, reach string) Val {
	fc := fr.fc
	var resT types.Type
	if instr != nil {
		resT = instr.Type()
	} else {
		resT = cc.Signature().Results()
	}
	var args []Val
	for _, a := range cc.Args {
		args = append(args, fr.get(a))
	}
	if cc.IsInvoke() {
		recv := fr.get(cc.Value)
		return fr.invoke(cc, recv, args, resT, st, reach)
	}
	if b, ok := cc.Value.(*ssa.Builtin); ok {
		return fr.builtin(b, cc, args, resT, st, reach)
	}
	callee := cc.StaticCallee()
	var free []Val
	if callee == nil {
		fv := fr.get(cc.Value)
		if fv.Fn != nil && fv.Fn.Special == "writeFn" {
			// commit the child branch into the parent
			child, parent := fv.Fn.Data[0], fv.Fn.Data[1]
			st.worlds = fc.def("W", "(Array Int WorldS)", fmt.Sprintf("(store %s (c_br %s) (select %s (c_br %s)))", st.worlds, parent.T, st.worlds, child.T))
			return Val{Tuple: nil, Typ: resT}
		}
		if fv.Fn != nil && strings.HasPrefix(fv.Fn.Special, "globalfn:") {
			qual := strings.TrimPrefix(fv.Fn.Special, "globalfn:")
			if i := strings.LastIndex(qual, "."); i > 0 {
				if target := fc.W.globalFuncAlias(qual[:i], qual[i+1:]); target != nil {
					fc.trusted["function variable "+qual+" is an alias of "+target.String()+" (never reassigned)"] = true
					return fr.callStatic(target, args, nil, cc, resT, st, reach)
				}
			}
			return fr.globalFnCall(qual, args, resT)
		}
		if fv.Fn != nil && fv.Fn.Fn != nil {
			callee = fv.Fn.Fn
			free = fv.Fn.Bindings
			if len(fv.Fn.Data) > 0 { // bound method: receiver first
				args = append(append([]Val(nil), fv.Fn.Data...), args...)
			}
		} else {
			fc.opaque["dynamic call in "+fr.fn.Name()] = true
			return fr.opaqueCall("dynamic", args, cc, resT, st, reach)
		}
	}
	return fr.callStatic(callee, args, free, cc, resT, st, reach)
}

func (fc *FnCtx) def(prefix, sort, term string) string {
	if len(term) > 80 {
		return fc.B.Define(prefix, sort, term)
	}
	return term
}

func (fr *Frame) callStatic(callee *ssa.Function, args []Val, free []Val, cc *ssa.CallCommon, resT types.Type, st *State, reach string) Val {
	fc := fr.fc
	name := callee.String()
	// pointer-receiver wrapper of a value method ((*T).M for func (T) M): load the receiver, call the method
	if strings.HasPrefix(callee.Synthetic, "wrapper for") && callee.Signature.Recv() != nil && len(args) > 0 {
		if pt, ok := callee.Signature.Recv().Type().Underlying().(*types.Pointer); ok {
			var pkg *types.Package
			if nt, ok := types.Unalias(pt.Elem()).(*types.Named); ok {
				pkg = nt.Obj().Pkg()
			}
			if vm := fc.W.Prog.LookupMethod(pt.Elem(), pkg, callee.Name()); vm != nil && vm != callee {
				recv := args[0]
				if recv.PBase == nil {
					recv.PBase = pt.Elem()
				}
				fc.safety(reach, eq(recv.T, "0"), "nil-deref", cc)
				rv := fc.load(st, recv)
				rv.Typ = pt.Elem()
				return fr.callStatic(vm, append([]Val{rv}, args[1:]...), free, cc, resT, st, reach)
			}
		}
	}
	if len(args) > 0 && args[0].S == "View" && callee.Signature.Recv() != nil {
		// a concrete store type modelled as a view (prefix.Store): its KVStore methods are the view operations
		switch callee.Name() {
		case "Get", "Has", "Set", "Delete":
			return fr.viewOp(callee.Name(), args[0], args[1:], cc, resT, st, reach)
		}
	}
	if p, ok := staticPrelude[name]; ok {
		return p.fn(&preCall{fr: fr, st: st, reach: reach, args: args, cc: cc, resT: resT, name: name})
	}
	// protobuf-generated getter of an external package: func (m *T) GetX() X { if m != nil { return m.X }; return zero }
	if len(callee.Blocks) == 0 && strings.HasPrefix(callee.Name(), "Get") && callee.Signature.Recv() != nil && len(args) == 1 {
		if pt, ok := callee.Signature.Recv().Type().Underlying().(*types.Pointer); ok {
			if _, isStruct := pt.Elem().Underlying().(*types.Struct); isStruct {
				if _, f, ok := fc.B.fieldOf(pt.Elem(), strings.TrimPrefix(callee.Name(), "Get")); ok && callee.Signature.Results().Len() == 1 &&
					fc.B.SortOf(callee.Signature.Results().At(0).Type()) == f.sort {
					recv := args[0]
					if recv.PBase == nil {
						recv.PBase = pt.Elem()
					}
					obj := fc.load(st, recv)
					fc.trusted["external protobuf getters (*T).GetX return the field X (zero value for a nil receiver)"] = true
					rt := callee.Signature.Results().At(0).Type()
					return fc.mkVal(rt, fc.def("getter", f.sort, ite(eq(recv.T, "0"), fc.zero(rt), "("+f.sel+" "+obj.T+")")))
				}
			}
		}
	}
	if callee.Origin() != nil {
		if p, ok := staticPrelude[callee.Origin().String()]; ok {
			return p.fn(&preCall{fr: fr, st: st, reach: reach, args: args, cc: cc, resT: resT, name: name})
		}
	}
	if c := fc.contractFor(callee); c != nil && !(c.Flags["inline"]) {
		return fr.applyContract(c, callee, args, resT, st, reach, QualName(callee))
	}
	if isStorePurePkg(fnPkgPath(callee)) {
		fc.dropped["store-pure call "+name] = true
		return fr.freshResult(resT, "pure")
	}
	if inModule(callee) && emitEventRe.MatchString(callee.Name()) {
		fc.dropped["event emission "+QualName(callee)+" (A-pure)"] = true
		return fr.freshResult(resT, "pure")
	}
	if fc.inlinable(callee, fr.depth) {
		fc.inlined[QualName(callee)] = true
		sub := fc.newFrame(callee, fr.depth+1, reach)
		res, nst, rc := sub.exec(args, free, *st)
		*st = nst
		if fc.Mode == "contract" && (fc.C == nil || !fc.C.Flags["nopanic"]) && rc != "true" {
			// the inlined callee may panic on some paths: a panic aborts the transaction (A-abort), so the
			// caller continues only when the callee returned normally
			fc.B.Assert(implies(reach, rc))
		}
		return tupleOf(res, resT)
	}
	fc.opaque[name] = true
	return fr.opaqueCall(name, args, cc, resT, st, reach)
}

func tupleOf(res []Val, resT types.Type) Val {
	if tup, ok := resT.(*types.Tuple); ok {
		if tup.Len() == 1 && len(res) == 1 {
			return res[0]
		}
		return Val{Tuple: res, Typ: resT}
	}
	if len(res) == 1 {
		return res[0]
	}
	return Val{Tuple: res, Typ: resT}
}

func (fr *Frame) freshResult(resT types.Type, name string) Val {
	fc := fr.fc
	if resT == nil {
		return Val{}
	}
	if tup, ok := resT.(*types.Tuple); ok {
		if tup.Len() == 0 {
			return Val{Typ: resT}
		}
		if tup.Len() == 1 {
			return fc.freshVal(tup.At(0).Type(), name)
		}
		var vs []Val
		for i := 0; i < tup.Len(); i++ {
			vs = append(vs, fc.freshVal(tup.At(i).Type(), name))
		}
		return Val{Tuple: vs, Typ: resT}
	}
	return fc.freshVal(resT, name)
}

// opaqueCall: results unconstrained; state reachable through Ctx/View/pointer arguments havocked.
func (fr *Frame) opaqueCall(name string, args []Val, cc *ssa.CallCommon, resT types.Type, st *State, reach string) Val {
	fc := fr.fc
	for _, a := range args {
		fr.havocArg(a, st)
	}
	res := fr.freshResult(resT, "opq")
	for _, v := range flatten(res) {
		fc.assumeAlive(st, v)
	}
	return res
}

func flatten(v Val) []Val {
	if len(v.Tuple) > 0 {
		return v.Tuple
	}
	return []Val{v}
}

func (fr *Frame) havocArg(a Val, st *State) {
	fc := fr.fc
	switch a.S {
	case "Ctx":
		st.worlds = fc.def("W", "(Array Int WorldS)", fmt.Sprintf("(store %s (c_br %s) %s)", st.worlds, a.T, fc.B.Fresh("w_havoc", "WorldS")))
		return
	case "View":
		st.worlds = fc.def("W", "(Array Int WorldS)", fmt.Sprintf("(store %s (v_br %s) %s)", st.worlds, a.T, fc.B.Fresh("w_havoc", "WorldS")))
		return
	}
	if a.Fn != nil && a.Fn.Special == "dyn" && len(a.Fn.Data) == 1 {
		fr.havocArg(a.Fn.Data[0], st)
		return
	}
	if a.Typ == nil {
		return
	}
	switch t := a.Typ.Underlying().(type) {
	case *types.Pointer:
		if a.PBase != nil {
			hs := fc.B.SortOf(a.PBase)
			h := fc.heapOf(st, hs)
			st.heaps[hs] = fc.def("H", "(Array Int "+hs+")", fmt.Sprintf("(store %s %s %s)", h, a.T, fc.B.Fresh("obj_havoc", hs)))
		}
	case *types.Map:
		ms := fc.mapSort(t)
		h := fc.heapOf(st, ms)
		st.heaps[ms] = fc.def("H", "(Array Int "+ms+")", fmt.Sprintf("(store %s %s %s)", h, a.T, fc.B.Fresh("map_havoc", ms)))
	}
}

// ---- builtins

func (fr *Frame) builtin(b *ssa.Builtin, cc *ssa.CallCommon, args []Val, resT types.Type, st *State, reach string) Val {
	fc := fr.fc
	switch b.Name() {
	case "len", "cap":
		a := args[0]
		if mt, ok := cc.Args[0].Type().Underlying().(*types.Map); ok {
			n := fc.B.Fresh("maplen", "Int")
			ms := fc.mapSort(mt)
			cur := "(select " + fc.heapOf(st, ms) + " " + a.T + ")"
			fn := "maplen_" + sanitize(ms)
			fc.B.DeclFun(fn, []string{ms}, "Int")
			fc.B.Assert(and(eq(n, "("+fn+" "+cur+")"), "(>= "+n+" 0)"))
			return Val{S: "Int", T: n, Typ: types.Typ[types.Int]}
		}
		if b.Name() == "cap" {
			c := fc.B.Fresh("cap", "Int")
			fc.B.Assert("(>= " + c + " " + fr.lenOf(a) + ")")
			return Val{S: "Int", T: c, Typ: types.Typ[types.Int]}
		}
		return Val{S: "Int", T: fr.lenOf(a), Typ: types.Typ[types.Int]}
	case "append":
		a := args[0]
		if len(args) == 1 {
			return a
		}
		if appendMayClobber(cc.Args[0], 0, map[ssa.Value]bool{}) {
			// appending to a shortened view (x[:n], x[i:]) of a slice the function does not own writes into the
			// owner's visible elements: an ownership violation (DESIGN 2.4), not expressible with value semantics
			fc.unsupported("#own: %s appends to a re-sliced view of a slice it does not own (at %s)", fr.fn.Name(), posStr(fc.W, cc.Pos()))
		}
		bb := args[1]
		switch a.S {
		case "Bytes":
			var bs string
			if bb.S == "String" {
				bs = bb.T
			} else {
				bs = "(b_s " + bb.T + ")"
			}
			t := "(mkB (and (b_nil " + a.T + ") (= (str.len " + bs + ") 0)) (str.++ (b_s " + a.T + ") " + bs + "))"
			return Val{S: "Bytes", T: fc.def("app", "Bytes", t), Typ: cc.Args[0].Type()}
		default:
			return fr.appendSlices(a, bb, cc.Args[0].Type())
		}
	case "copy":
		// copy(dst, src) into a byte buffer this function owns: dst is the buffer itself or buf[lo:] of it. The
		// buffer's SSA value is re-bound to its new content (value semantics, like an element write).
		if args[0].S == "Bytes" && (args[1].S == "Bytes" || args[1].S == "String") {
			var base ssa.Value = cc.Args[0]
			lo := "0"
			if sl, ok := base.(*ssa.Slice); ok && sl.High == nil && sl.Max == nil {
				if _, isPtr := sl.X.Type().Underlying().(*types.Pointer); !isPtr {
					base = sl.X
					if sl.Low != nil {
						lo = fr.get(sl.Low).T
					}
				} else if a, isAlloc := sl.X.(*ssa.Alloc); isAlloc && a.Comment != "makeslice" && arrayViewsUsedOnce(a) {
					// dst is arr[lo:] of a local byte array: the array lives in a cell, which gets the new content
					if sl.Low != nil {
						lo = fr.get(sl.Low).T
					}
					p := fr.get(a)
					cur := fc.load(st, p)
					if cur.S == "Bytes" {
						bs := "(b_s " + cur.T + ")"
						src, _ := asString(args[1])
						room := "(- (str.len " + bs + ") " + lo + ")"
						n := fc.def("copyn", "Int", ite("(<= (str.len "+src+") "+room+")", "(str.len "+src+")", room))
						nt := "(mkB false (str.++ (str.substr " + bs + " 0 " + lo + ") (str.substr " + src + " 0 " + n + ") (str.substr " + bs + " (+ " + lo + " " + n + ") (- (str.len " + bs + ") (+ " + lo + " " + n + ")))))"
						cur.T = fc.B.Define("copied_"+a.Name(), "Bytes", nt)
						fc.store(st, p, cur)
						return Val{S: "Int", T: n, Typ: types.Typ[types.Int]}
					}
				}
			}
			if sl, ok := base.(*ssa.Slice); ok {
				// make([]byte, N) with a constant N is `new [N]byte (makeslice)` + one slice of it: that slice value
				// owns the array and is re-bound below. Any other view of a local array is outside the subset.
				if a, isAlloc := sl.X.(*ssa.Alloc); isAlloc && !(a.Comment == "makeslice" && sl.Low == nil && sl.Max == nil) {
					fc.unsupported("copy into a view of a local array that has other live views in %s", fr.fn.Name())
					return fc.freshVal(types.Typ[types.Int], "copy")
				}
			}
			if ownedSlice(base, 0) {
				cur := fr.get(base)
				bs := "(b_s " + cur.T + ")"
				src, _ := asString(args[1])
				room := "(- (str.len " + bs + ") " + lo + ")"
				n := fc.def("copyn", "Int", ite("(<= (str.len "+src+") "+room+")", "(str.len "+src+")", room))
				fc.safety(reach, or("(< "+lo+" 0)", "(> "+lo+" (str.len "+bs+"))"), "slice-bounds", cc)
				nt := "(mkB false (str.++ (str.substr " + bs + " 0 " + lo + ") (str.substr " + src + " 0 " + n + ") (str.substr " + bs + " (+ " + lo + " " + n + ") (- (str.len " + bs + ") (+ " + lo + " " + n + ")))))"
				cur.T = fc.B.Define("copied_"+base.Name(), "Bytes", nt)
				cur.VA = nil
				fr.addRebind(base, cur)
				return Val{S: "Int", T: n, Typ: types.Typ[types.Int]}
			}
			fc.unsupported("#own: %s copies into a byte slice it does not own (at %s)", fr.fn.Name(), posStr(fc.W, cc.Pos()))
			return fc.freshVal(types.Typ[types.Int], "copy")
		}
		fc.unsupported("builtin copy in %s", fr.fn.Name())
		return fc.freshVal(types.Typ[types.Int], "copy")
	case "delete":
		m, k := args[0], args[1]
		mt := cc.Args[0].Type().Underlying().(*types.Map)
		ms := fc.mapSort(mt)
		h := fc.heapOf(st, ms)
		cur := "(select " + h + " " + m.T + ")"
		st.heaps[ms] = fc.def("H", "(Array Int "+ms+")", fmt.Sprintf("(store %s %s (mkM (store (m_dom %s) %s false) (m_val %s)))", h, m.T, cur, k.T, cur))
		return Val{}
	case "min", "max":
		op := "<="
		if b.Name() == "max" {
			op = ">="
		}
		cur := args[0].T
		for _, a := range args[1:] {
			cur = "(ite (" + op + " " + cur + " " + a.T + ") " + cur + " " + a.T + ")"
		}
		return Val{S: args[0].S, T: cur, Typ: args[0].Typ}
	case "ssa:wrapnilchk":
		// wrapper for a value-receiver method called through a pointer: panics on a nil receiver, else the pointer
		fr.fc.safety(reach, eq(args[0].T, "0"), "nil-deref", cc)
		return args[0]
	case "print", "println":
		return Val{}
	case "recover":
		return Val{S: "Iface", T: "(mkI 0 0)", Typ: resT}
	}
	fc.unsupported("builtin %s", b.Name())
	return fr.freshResult(resT, "builtin")
}

// ---- invoke

func (fr *Frame) invoke(cc *ssa.CallCommon, recv Val, args []Val, resT types.Type, st *State, reach string) Val {
	fc := fr.fc
	m := cc.Method.Name()
	if recv.S == "View" {
		return fr.viewOp(m, recv, args, cc, resT, st, reach)
	}
	key := ifaceKey(cc.Value.Type()) + "." + m
	if p, ok := invokePrelude["*."+m]; ok {
		return p.fn(&preCall{fr: fr, st: st, reach: reach, args: append([]Val{recv}, args...), cc: cc, resT: resT, name: key})
	}
	if p, ok := invokePrelude[key]; ok {
		return p.fn(&preCall{fr: fr, st: st, reach: reach, args: append([]Val{recv}, args...), cc: cc, resT: resT, name: key})
	}
	if isErrorType(cc.Value.Type()) && m == "Error" {
		return fc.freshVal(types.Typ[types.String], "errstr")
	}
	if c := fc.ifaceContract(cc.Value.Type(), m); c != nil {
		return fr.applyContract(c, nil, append([]Val{recv}, args...), resT, st, reach, c.Target)
	}
	// statically known dynamic type
	if recv.Fn != nil && recv.Fn.Special == "dyn" {
		dv := recv.Fn.Data[0]
		if fn := fc.W.Prog.LookupMethod(dv.Typ, cc.Method.Pkg(), m); fn != nil {
			return fr.callStatic(fn, append([]Val{dv}, args...), nil, cc, resT, st, reach)
		}
	}
	if impl := fc.closedImpl(cc.Value.Type()); impl != nil {
		if fn := fc.W.Prog.LookupMethod(impl, cc.Method.Pkg(), m); fn != nil {
			fc.trusted["closed-world: "+ifaceKey(cc.Value.Type())+" is implemented only by "+impl.String()] = true
			dv := fc.mkVal(impl, fc.B.Unbox(impl, "(i_pl "+recv.T+")"))
			fc.safety(reach, eq("(i_tag "+recv.T+")", "0"), "nil-iface-call", cc)
			return fr.callStatic(fn, append([]Val{dv}, args...), nil, cc, resT, st, reach)
		}
	}
	if isStorePurePkg(ifaceKey(cc.Value.Type())) {
		fc.dropped["store-pure invoke "+key] = true
		return fr.freshResult(resT, "pure")
	}
	fc.opaque["invoke "+key] = true
	return fr.opaqueCall(key, append([]Val{recv}, args...), cc, resT, st, reach)
}

// ---- defers

func (fr *Frame) runDefers(st *State, reach string) {
	fc := fr.fc
	for i := len(fr.defers) - 1; i >= 0; i-- {
		d := fr.defers[i]
		cc := d.call
		if callee := cc.StaticCallee(); callee != nil {
			if isStorePurePkg(fnPkgPath(callee)) {
				fc.dropped["deferred store-pure call "+callee.String()] = true
				continue
			}
			if callee.String() == "github.com/cosmos/cosmos-sdk/types.LogDeferred" {
				fc.dropped["deferred LogDeferred (iterator close)"] = true
				continue
			}
		}
		if cc.IsInvoke() && (cc.Method.Name() == "Close") {
			fc.dropped["deferred Close"] = true
			continue
		}
		// closure: inspect for store purity by executing it symbolically (it runs on every exit)
		fv := fr.get(cc.Value)
		if fv.Fn != nil && fv.Fn.Fn != nil && fc.inlinable(fv.Fn.Fn, fr.depth) {
			sub := fc.newFrame(fv.Fn.Fn, fr.depth+1, and(reach, d.cond))
			var args []Val
			for _, a := range cc.Args {
				args = append(args, fr.get(a))
			}
			_, nst, _ := sub.exec(args, fv.Fn.Bindings, *st)
			// merge: the deferred call only ran if the defer statement was reached
			*st = fc.mergeStates([]string{d.cond, not(d.cond)}, []State{nst, *st}, "defer")
			fc.inlined["deferred "+QualName(fv.Fn.Fn)] = true
			continue
		}
		fc.unsupported("deferred call %s in %s", cc.String(), fr.fn.Name())
	}
}

// appendMayClobber: the append target is (through phis and earlier appends) a shortened view of a slice whose
// backing array the function does not own, taken without a capacity limit (x[lo:hi] rather than x[lo:hi:max]).
func appendMayClobber(v ssa.Value, depth int, seen map[ssa.Value]bool) bool {
	if depth > 6 || seen[v] {
		return false
	}
	seen[v] = true
	switch x := v.(type) {
	case *ssa.Slice:
		if x.Max == nil && (x.High != nil || x.Low != nil) {
			if _, isArr := x.X.(*ssa.Alloc); !isArr && !ownedSlice(x.X, 0) {
				return true
			}
		}
		return false
	case *ssa.Phi:
		for _, e := range x.Edges {
			if appendMayClobber(e, depth+1, seen) {
				return true
			}
		}
	case *ssa.Call:
		if b, ok := x.Call.Value.(*ssa.Builtin); ok && b.Name() == "append" && len(x.Call.Args) > 0 {
			return appendMayClobber(x.Call.Args[0], depth+1, seen)
		}
	}
	return false
}

// arrayViewsUsedOnce: every slice view taken of the local array is used exactly once (handed straight to a call
// or copy), so no view can observe a later write to the array through a stale value.
func arrayViewsUsedOnce(a *ssa.Alloc) bool {
	if a.Referrers() == nil {
		return false
	}
	for _, r := range *a.Referrers() {
		sl, ok := r.(*ssa.Slice)
		if !ok {
			continue
		}
		n := 0
		if sl.Referrers() != nil {
			for _, u := range *sl.Referrers() {
				if _, dbg := u.(*ssa.DebugRef); !dbg {
					n++
				}
			}
		}
		if n > 1 {
			return false
		}
	}
	return true
}
