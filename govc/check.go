package main

import (
	"encoding/json"
	"flag"
	"fmt"
	"os"
	"path/filepath"
	"regexp"
	"sort"
	"strconv"
	"strings"
	"time"
)

func verifDir() string {
	if d := os.Getenv("VERIF_DIR"); d != "" {
		return d
	}
	return "/verif"
}

// PropSpec: /verif/props/Cxx.spec
type PropSpec struct {
	ID         string
	Fns        []string // functions under contract
	Safety     []string // functions in zero-annotation safety mode
	Lemmas     []LemmaSpec
	Census     []CensusSpec
	Assume     []string
	NotDecided []string
	Bounded    []string
	Wasm       bool // load the 08-wasm module instead
	Expect     []string
}

type LemmaSpec struct {
	Name    string
	Pkg     string
	Src     string
	DecFull bool
}

type CensusSpec struct {
	Name string
	Kind string // "callers", "keywriters", "impl"
	Args []string
}

func parsePropSpec(path string) (*PropSpec, error) {
	bz, err := os.ReadFile(path)
	if err != nil {
		return nil, err
	}
	ps := &PropSpec{}
	var curLemma *LemmaSpec
	flush := func() {
		if curLemma != nil {
			ps.Lemmas = append(ps.Lemmas, *curLemma)
			curLemma = nil
		}
	}
	for _, raw := range strings.Split(string(bz), "\n") {
		line := strings.TrimSpace(raw)
		if line == "" || strings.HasPrefix(line, "#") {
			continue
		}
		fs := strings.Fields(line)
		indented := strings.HasPrefix(raw, " ") || strings.HasPrefix(raw, "\t")
		if indented && curLemma != nil {
			curLemma.Src += " " + line
			continue
		}
		switch fs[0] {
		case "property":
			flush()
			ps.ID = fs[1]
		case "fn":
			flush()
			ps.Fns = append(ps.Fns, fs[1])
		case "safety":
			flush()
			ps.Safety = append(ps.Safety, fs[1])
		case "wasm":
			flush()
			ps.Wasm = true
		case "lemma":
			flush()
			curLemma = &LemmaSpec{Name: fs[1]}
			if len(fs) > 3 && fs[2] == "pkg" {
				curLemma.Pkg = fs[3]
			}
			for _, o := range fs[2:] {
				if o == "decfull" {
					curLemma.DecFull = true
				}
			}
		case "census":
			flush()
			ps.Census = append(ps.Census, CensusSpec{Name: fs[1], Kind: fs[2], Args: fs[3:]})
		case "assume":
			flush()
			ps.Assume = append(ps.Assume, strings.TrimSpace(strings.TrimPrefix(line, "assume")))
		case "not_decided":
			flush()
			ps.NotDecided = append(ps.NotDecided, strings.TrimSpace(strings.TrimPrefix(line, "not_decided")))
		case "bounded":
			flush()
			ps.Bounded = append(ps.Bounded, strings.TrimSpace(strings.TrimPrefix(line, "bounded")))
		case "expect":
			flush()
			ps.Expect = append(ps.Expect, fs[1:]...)
		default:
			return nil, fmt.Errorf("%s: unknown directive %q", path, fs[0])
		}
	}
	flush()
	if ps.ID == "" {
		return nil, fmt.Errorf("%s: no property id", path)
	}
	return ps, nil
}

// Known findings
type Finding struct {
	Property   string `json:"property"`
	Status     string `json:"status"` // "open" or "fixed"
	Obligation string `json:"obligation"`
	What       string `json:"what"`
	Restrict   string `json:"restrict,omitempty"` // contract-language formula over the function's parameters excluding the failing class
	Commit     string `json:"commit,omitempty"`
}

func loadFindings() []Finding {
	var fs []Finding
	bz, err := os.ReadFile(filepath.Join(verifDir(), "known_findings.json"))
	if err != nil {
		return nil
	}
	if err := json.Unmarshal(bz, &fs); err != nil {
		fmt.Fprintln(os.Stderr, "known_findings.json:", err)
	}
	return fs
}

type oblReport struct {
	Name   string `json:"name"`
	Kind   string `json:"kind"`
	Status string `json:"status"`
	Solver string `json:"solver,omitempty"`
	Ms     int64  `json:"ms"`
	Bytes  int    `json:"smt_bytes"`
	Src    string `json:"clause,omitempty"`
}

func checkMain(args []string) int {
	fs := flag.NewFlagSet("check", flag.ExitOnError)
	tier := fs.String("tier", "", "quick|thorough")
	mutant := fs.String("mutant", "", "apply a .mut file through the loader overlay (self-test)")
	quiet := fs.Bool("q", false, "quiet")
	jsonOut := fs.String("json", "", "write machine-readable result here (self-test)")
	fs.Parse(args)
	if fs.NArg() < 1 {
		fmt.Println("usage: govc check [--tier t] Cxx")
		return 2
	}
	id := fs.Arg(0)
	if *tier == "" {
		*tier = os.Getenv("VERIF_TIER")
	}
	if *tier == "" {
		*tier = "quick"
	}
	seed, _ := strconv.Atoi(os.Getenv("VERIF_SEED"))
	t0 := time.Now()
	ps, err := parsePropSpec(filepath.Join(verifDir(), "props", id+".spec"))
	if err != nil {
		fmt.Println("spec error:", err)
		return 2
	}
	var overlay map[string][]byte
	if *mutant != "" {
		overlay, err = loadMutant(*mutant)
		if err != nil {
			fmt.Println("mutant error:", err)
			return 2
		}
	}
	dir := repoDir()
	patterns := []string{"./modules/..."}
	if ps.Wasm {
		dir = filepath.Join(repoDir(), "modules/light-clients/08-wasm")
		patterns = []string{"./..."}
	}
	w, err := LoadWorld(dir, patterns, overlay)
	evidencePath := filepath.Join(verifDir(), "evidence", id+".json")
	writeEvidence := *mutant == ""
	if err != nil {
		// the tree does not load (compile error): every obligation is undecided -> report as violation of the load obligation
		fmt.Println("load failed:", err)
		rp := writeReplay(id, "load", "the repository does not load/type-check with -tags verif", err.Error(), "")
		fmt.Printf("VIOLATION property=%s replay=%s no-failing-input-found\n", id, rp)
		if writeEvidence {
			writeEvidenceFile(evidencePath, id, *tier, seed, nil, 1, 0, nil, nil, time.Since(t0).Seconds(), 1, map[string]any{"load_error": err.Error()})
		}
		return 1
	}
	w.ParseContracts(nil)
	timeout := 20
	if *tier == "thorough" {
		timeout = 120
	}
	findings := loadFindings()
	restrict := map[string]string{}
	for _, f := range findings {
		if f.Property == id && f.Status == "open" && f.Restrict != "" {
			restrict[f.Obligation] = f.Restrict
		}
	}

	var obls []*Obl
	var fnResults []*FnResult
	for _, e := range w.Contracts.Errors {
		obls = append(obls, &Obl{Name: "contracts#parse." + sanitize(e), Kind: "body", Script: "(assert true)\n(check-sat)\n", Expect: "unsat", Src: e})
	}
	for _, q := range ps.Fns {
		fn, err := w.FindFunc(q)
		if err != nil {
			obls = append(obls, &Obl{Name: q + "#exists", Kind: "body", Script: "(assert true)\n(check-sat)\n", Expect: "unsat", Src: err.Error(), Fn: q})
			continue
		}
		c := w.Contracts.ByTarget[QualName(fn)]
		if c == nil {
			obls = append(obls, &Obl{Name: q + "#contract", Kind: "body", Script: "(assert true)\n(check-sat)\n", Expect: "unsat", Src: "no contract found for " + q, Fn: q})
			continue
		}
		r := VerifyFuncR(w, fn, c, "contract", restrict)
		fnResults = append(fnResults, r)
		obls = append(obls, r.Obls...)
	}
	for _, q := range ps.Safety {
		fn, err := w.FindFunc(q)
		if err != nil {
			obls = append(obls, &Obl{Name: q + "#exists", Kind: "safety", Script: "(assert true)\n(check-sat)\n", Expect: "unsat", Src: err.Error(), Fn: q})
			continue
		}
		r := VerifyFuncR(w, fn, w.Contracts.ByTarget[QualName(fn)], "safety", restrict)
		fnResults = append(fnResults, r)
		obls = append(obls, r.Obls...)
	}
	for _, l := range ps.Lemmas {
		o, lr := LemmaObl(w, id, l)
		obls = append(obls, o...)
		if lr != nil {
			fnResults = append(fnResults, lr)
		}
	}
	for _, c := range ps.Census {
		obls = append(obls, CensusObl(w, id, c)...)
	}
	// expected (named) obligations must have been generated
	have := map[string]bool{}
	for _, o := range obls {
		for have[o.Name] { // never let two obligations share a name (results are keyed by name)
			o.Name += "'"
		}
		have[o.Name] = true
	}
	for _, e := range ps.Expect {
		found := false
		for n := range have {
			if strings.HasSuffix(n, e) || n == e {
				found = true
			}
		}
		if !found {
			obls = append(obls, &Obl{Name: "expect#" + e, Kind: "vacuity", Script: "(assert true)\n(check-sat)\n", Expect: "unsat", Src: "named obligation " + e + " was not generated on this run"})
		}
	}
	if len(obls) == 0 {
		obls = append(obls, &Obl{Name: id + "#nonempty", Kind: "vacuity", Script: "(assert true)\n(check-sat)\n", Expect: "unsat", Src: "no obligations generated"})
	}
	res := SolveAll(obls, timeout, 8)

	// evaluate
	var reports []oblReport
	nObl, nDis, nViol := 0, 0, 0
	var samples []any
	failed := []string{}
	solverMs := int64(0)
	bySolver := map[string]int{}
	for _, o := range obls {
		r := res[o.Name]
		solverMs += r.Ms
		reports = append(reports, oblReport{o.Name, o.Kind, r.Status, r.Solver, r.Ms, r.Bytes, o.Src})
		if strings.HasSuffix(o.Name, "@restricted") {
			continue
		}
		if o.Expect == "sat" {
			// cover / vacuity: must be satisfiable; "unknown" is tolerated for covers (not a proof obligation)
			if r.Status == "unsat" {
				nViol++
				failed = append(failed, o.Name)
				rp := writeReplay(id, o.Name, o.Src, "vacuity: expected satisfiable, solver says unsat", "")
				fmt.Printf("VIOLATION property=%s replay=%s no-failing-input-found\n", id, rp)
			}
			continue
		}
		nObl++
		if r.Status == "unsat" {
			nDis++
			bySolver[r.Solver]++
			if len(samples) < 3 {
				samples = append(samples, map[string]any{"obligation": o.Name, "clause": o.Src, "solver": r.Solver, "ms": r.Ms, "smt_bytes": r.Bytes})
			}
			continue
		}
		// failed obligation: known finding?
		handled := false
		for _, f := range findings {
			if f.Property == id && f.Status == "open" && f.Obligation == o.Name {
				rr, ok := res[o.Name+"@restricted"]
				if f.Restrict == "" || (ok && rr.Status == "unsat") {
					fmt.Printf("KNOWN-FINDING: property=%s %s [%s]\n", id, f.What, o.Name)
					handled = true
					nObl-- // recorded finding: not counted as an obligation of the proof
				}
			}
		}
		if handled {
			continue
		}
		nViol++
		failed = append(failed, o.Name)
		replayed := ""
		if r.Status == "sat" && r.Model != "" && *mutant == "" || r.Status == "sat" && r.Model != "" && os.Getenv("VERIF_REPLAY_MUTANTS") != "" {
			replayed = tryReplay(w, o, r)
		}
		detail := r.Detail
		if r.Status == "sat" {
			detail = "solver " + r.Solver + " found a counterexample:\n" + r.Model
		}
		rp := writeReplay(id, o.Name, o.Src, detail, replayed)
		if replayed == "reproduced" {
			fmt.Printf("VIOLATION property=%s replay=%s\n", id, rp)
		} else {
			fmt.Printf("VIOLATION property=%s replay=%s no-failing-input-found\n", id, rp)
		}
		if !*quiet {
			fmt.Printf("  failed obligation %s (%s): %s\n", o.Name, r.Status, trunc(o.Src, 160))
		}
	}
	wall := time.Since(t0).Seconds()
	// evidence
	var fuc []string
	opaque, inlined, dropped, trusted, notes := map[string]bool{}, map[string]bool{}, map[string]bool{}, map[string]bool{}, map[string]bool{}
	for _, r := range fnResults {
		fuc = append(fuc, r.Fn)
		for _, x := range r.Opaque {
			opaque[x] = true
		}
		for _, x := range r.Inlined {
			inlined[x] = true
		}
		for _, x := range r.Dropped {
			dropped[x] = true
		}
		for _, x := range r.Trusted {
			trusted[x] = true
		}
		for _, x := range r.Notes {
			notes[x] = true
		}
	}
	extra := map[string]any{
		"functions_under_contract": fuc,
		"per_obligation":           reports,
		"inlined":                  keys(inlined),
		"opaque_calls":             keys(opaque),
		"dropped":                  keys(dropped),
		"engine_notes":             keys(notes),
		"not_decided":              ps.NotDecided,
		"bounded":                  ps.Bounded,
		"solver_ms_total":          solverMs,
		"discharged_by":            bySolver,
		"load_s":                   w.LoadS,
		"contract_files":           relFiles(w.Contracts.Files),
		"failed":                   failed,
	}
	assumptions := append([]string{}, ps.Assume...)
	assumptions = append(assumptions, keys(trusted)...)
	assumptions = append(assumptions,
		"T-engine: govc SSA->SMT translation, go/ssa, go/types and the SMT solvers are trusted",
		"machine integers are modelled with explicit wrap-around (never as mathematical integers); strings/bytes are SMT strings",
		"opaque calls (listed under opaque_calls) havoc only worlds/objects reachable through their Ctx/KVStore/pointer arguments (A-ctx)",
		"panics abort the transaction and leave no state (A-abort): postconditions are required on normal returns only")
	if writeEvidence {
		writeEvidenceFile(evidencePath, id, *tier, seed, samples, nObl, nDis, []string{"T-engine", "T-prelude", "T-crypto", "A-ctx", "A-abort", "A-pure", "A-store"}, assumptions, wall, nViol, extra)
	}
	if *jsonOut != "" {
		bz, _ := json.MarshalIndent(map[string]any{"failed": failed, "obligations": nObl, "discharged": nDis}, "", " ")
		os.WriteFile(*jsonOut, bz, 0o644)
	}
	if !*quiet {
		fmt.Printf("%s: %d obligations, %d discharged, %d violations, %.1fs (load %.1fs, solver %dms)\n", id, nObl, nDis, nViol, wall, w.LoadS, solverMs)
	}
	if os.Getenv("VERIF_KEEP") == "" {
		os.RemoveAll(workDir())
	}
	if nViol > 0 {
		return 1
	}
	return 0
}

func relFiles(fs []string) []string {
	var out []string
	for _, f := range fs {
		out = append(out, strings.TrimPrefix(f, repoDir()+"/"))
	}
	return out
}

func writeEvidenceFile(path, id, tier string, seed int, samples []any, nObl, nDis int, tb, assumptions []string, wall float64, viol int, extra map[string]any) {
	os.MkdirAll(filepath.Dir(path), 0o755)
	if samples == nil {
		samples = []any{}
	}
	cov := map[string]any{
		"obligations":  nObl,
		"discharged":   nDis,
		"checker_cmd":  "./check " + id + " --tier " + tier + "  (govc: go/ssa VC generation; z3 4.8.12 / z3 5.1.0 / cvc5 1.0 raced per obligation)",
		"trusted_base": tb,
		"samples":      samples,
	}
	for k, v := range extra {
		cov[k] = v
	}
	ev := map[string]any{
		"property_id": id,
		"tier":        tier,
		"seed":        seed,
		"level":       "proof",
		"coverage":    cov,
		"assumptions": assumptions,
		"wall_s":      wall,
		"violations":  viol,
	}
	bz, _ := json.MarshalIndent(ev, "", " ")
	os.WriteFile(path, bz, 0o644)
}

func writeReplay(id, obl, clause, detail, replayed string) string {
	dir := filepath.Join(verifDir(), "replays", id)
	os.MkdirAll(dir, 0o755)
	name := sanitize(obl)
	if len(name) > 150 {
		name = name[len(name)-150:]
	}
	p := filepath.Join(dir, name+".json")
	bz, _ := json.MarshalIndent(map[string]any{
		"property":       id,
		"obligation":     obl,
		"clause":         clause,
		"solver_output":  detail,
		"replay_outcome": replayed,
	}, "", " ")
	os.WriteFile(p, bz, 0o644)
	return p
}

// loadMutant parses a .mut file: header lines "file: <path relative to /repo>" followed by
// blocks "<<<<\nold\n====\nnew\n>>>>". Several file: sections are allowed.
func loadMutant(path string) (map[string][]byte, error) {
	bz, err := os.ReadFile(path)
	if err != nil {
		return nil, err
	}
	out := map[string][]byte{}
	var cur string
	lines := strings.Split(string(bz), "\n")
	for i := 0; i < len(lines); i++ {
		l := lines[i]
		switch {
		case strings.HasPrefix(l, "file:"):
			cur = filepath.Join(repoDir(), strings.TrimSpace(l[5:]))
			if _, ok := out[cur]; !ok {
				src, err := os.ReadFile(cur)
				if err != nil {
					return nil, err
				}
				out[cur] = src
			}
		case strings.HasPrefix(l, "<<<<"):
			var old, nw []string
			j := i + 1
			for ; j < len(lines) && !strings.HasPrefix(lines[j], "===="); j++ {
				old = append(old, lines[j])
			}
			j++
			for ; j < len(lines) && !strings.HasPrefix(lines[j], ">>>>"); j++ {
				nw = append(nw, lines[j])
			}
			i = j
			o, n := strings.Join(old, "\n"), strings.Join(nw, "\n")
			src := string(out[cur])
			if strings.Count(src, o) != 1 {
				return nil, fmt.Errorf("%s: old text occurs %d times in %s", path, strings.Count(src, o), cur)
			}
			out[cur] = []byte(strings.Replace(src, o, n, 1))
		}
	}
	if len(out) == 0 {
		return nil, fmt.Errorf("%s: no replacement", path)
	}
	return out, nil
}

var expectRe = regexp.MustCompile(`(?m)^#\s*expect:?\s*(.+)$`)

// selftestMain runs every mutant of the given properties: each .mut must make (one of) the named obligation(s)
// fail, each .ok must leave the property verified.
func selftestMain(args []string) int {
	ids := args
	if len(ids) == 0 {
		ents, _ := os.ReadDir(filepath.Join(verifDir(), "selftest"))
		for _, e := range ents {
			if e.IsDir() {
				ids = append(ids, e.Name())
			}
		}
	}
	sort.Strings(ids)
	bad := 0
	self, _ := os.Executable()
	for _, id := range ids {
		files, _ := filepath.Glob(filepath.Join(verifDir(), "selftest", id, "*"))
		sort.Strings(files)
		for _, f := range files {
			if !strings.HasSuffix(f, ".mut") && !strings.HasSuffix(f, ".ok") {
				continue
			}
			bz, _ := os.ReadFile(f)
			var expects []string
			if m := expectRe.FindStringSubmatch(string(bz)); m != nil {
				expects = strings.Fields(m[1])
			}
			tmp := filepath.Join(os.TempDir(), fmt.Sprintf("govc-st-%d.json", os.Getpid()))
			out, _ := runCmd(self, "check", "-q", "--mutant", f, "--json", tmp, id)
			var r struct {
				Failed []string `json:"failed"`
			}
			jb, _ := os.ReadFile(tmp)
			json.Unmarshal(jb, &r)
			os.Remove(tmp)
			okMut := false
			if strings.HasSuffix(f, ".ok") {
				okMut = len(r.Failed) == 0 && !strings.Contains(out, "VIOLATION")
			} else {
				for _, fl := range r.Failed {
					if len(expects) == 0 {
						okMut = true
					}
					for _, e := range expects {
						if strings.Contains(fl, e) {
							okMut = true
						}
					}
				}
				if !okMut && len(r.Failed) == 0 && strings.Contains(out, "VIOLATION") && len(expects) == 0 {
					okMut = true
				}
			}
			status := "ok  "
			if strings.Contains(out, "mutant error") {
				okMut = false
				fmt.Printf("     %s does not apply: %s\n", filepath.Base(f), strings.TrimSpace(out))
			}
			if !okMut {
				status = "BAD "
				bad++
			}
			fmt.Printf("%s %s/%s failed=%v\n", status, id, filepath.Base(f), shortNames(r.Failed))
		}
	}
	if bad > 0 {
		fmt.Printf("selftest: %d mutants not handled as expected\n", bad)
		return 1
	}
	return 0
}

func shortNames(xs []string) []string {
	var out []string
	for _, x := range xs {
		if i := strings.LastIndex(x, "/"); i >= 0 {
			x = x[i+1:]
		}
		out = append(out, x)
	}
	return out
}
