package main

import (
	"fmt"
	"go/ast"
	"go/constant"
	"go/token"
	"go/types"
	"strconv"
	"strings"

	"golang.org/x/tools/go/ssa"
)

type tokenPos = token.Pos

type preCall struct {
	fr    *Frame
	st    *State
	reach string
	args  []Val
	cc    *ssa.CallCommon
	resT  types.Type
	name  string
	spec  bool
}

type preFn struct {
	fn            func(*preCall) Val
	writesPtrArgs bool
	writesWorld   bool
}

var staticPrelude = map[string]preFn{}
var invokePrelude = map[string]preFn{}

func reg(name string, f func(*preCall) Val)  { staticPrelude[name] = preFn{fn: f} }
func regW(name string, f func(*preCall) Val) { staticPrelude[name] = preFn{fn: f, writesPtrArgs: true} }
func regInv(name string, f func(*preCall) Val) {
	invokePrelude[name] = preFn{fn: f, writesPtrArgs: true}
}

func (p *preCall) fc() *FnCtx { return p.fr.fc }

func (p *preCall) str(i int) string {
	s, ok := asString(p.args[i])
	if !ok {
		p.fc().unsupported("prelude %s: arg %d not a string (%s)", p.name, i, p.args[i].S)
		return "\"\""
	}
	return s
}

func (p *preCall) typ(i int) types.Type {
	if tup, ok := p.resT.(*types.Tuple); ok {
		if i < tup.Len() {
			return tup.At(i).Type()
		}
		return nil
	}
	if i == 0 {
		return p.resT
	}
	return nil
}

func tup(vs ...Val) Val { return Val{Tuple: vs} }

func errNil() Val { return Val{S: "Int", T: "0", Typ: types.Universe.Lookup("error").Type()} }

func (fc *FnCtx) freshErr(name string) Val {
	e := fc.B.Fresh(name, "Int")
	fc.B.Assert("(>= " + e + " 0)")
	return Val{S: "Int", T: e, Typ: types.Universe.Lookup("error").Type()}
}

// newErr: a fresh non-nil error whose root is `root` (or unknown if root == "")
func (fc *FnCtx) newErr(root string) Val {
	e := fc.B.Fresh("err", "Int")
	if root != "" {
		fc.B.Assert(and("(> "+e+" 0)", eq("(err_root "+e+")", root), "(not (is_sentinel "+e+"))"))
	} else {
		fc.B.Assert(and("(> "+e+" 0)", "(not (is_sentinel "+e+"))", "(not (is_sentinel (err_root "+e+")))"))
	}
	return Val{S: "Int", T: e, Typ: types.Universe.Lookup("error").Type()}
}

func bytesVal(t string) Val {
	return Val{S: "Bytes", T: t, Typ: types.NewSlice(types.Typ[types.Byte])}
}

func init() {
	// ---- errors
	wrap := func(p *preCall) Val {
		fc := p.fc()
		in := p.args[0]
		e := fc.B.Fresh("wrapped", "Int")
		// a wrapped error is a new object: never identical to a registered sentinel, same root for errors.Is
		fc.B.Assert(and("(>= "+e+" 0)", eq(eq(e, "0"), eq(in.T, "0")), eq("(err_root "+e+")", "(err_root "+in.T+")"), "(not (is_sentinel "+e+"))"))
		return Val{S: "Int", T: e, Typ: in.Typ}
	}
	reg("cosmossdk.io/errors.Wrap", wrap)
	reg("cosmossdk.io/errors.Wrapf", wrap)
	reg("errors.New", func(p *preCall) Val { return p.fc().newErr("") })
	reg("fmt.Errorf", func(p *preCall) Val {
		fc := p.fc()
		// %w wrapping: root is the root of the wrapped error when a single error argument is present
		if p.cc != nil && len(p.cc.Args) > 0 {
			if c, ok := p.cc.Args[0].(*ssa.Const); ok && c.Value != nil && strings.Contains(constant.StringVal(c.Value), "%w") {
				e := fc.B.Fresh("errw", "Int")
				fc.B.Assert("(> " + e + " 0)")
				fc.B.Note("fmt.Errorf with %w: result is non-nil, root unconstrained")
				return Val{S: "Int", T: e, Typ: types.Universe.Lookup("error").Type()}
			}
		}
		return fc.newErr("")
	})
	errIs := func(p *preCall) Val {
		return boolVal(and(not(eq(p.args[0].T, "0")), eq("(err_root "+p.args[0].T+")", "(err_root "+p.args[1].T+")")))
	}
	reg("errors.Is", errIs)
	reg("cosmossdk.io/errors.IsOf", func(p *preCall) Val {
		fc := p.fc()
		fc.unsupported("errors.IsOf")
		return fc.freshVal(types.Typ[types.Bool], "isof")
	})

	// ---- fmt
	reg("fmt.Sprintf", func(p *preCall) Val { return p.fr.sprintf(p, 0) })
	reg("fmt.Appendf", func(p *preCall) Val {
		v := p.fr.sprintf(p, 1)
		pre := p.str(0)
		return bytesVal(p.fc().def("appf", "Bytes", "(mkB false (str.++ "+pre+" "+v.T+"))"))
	})
	reg("fmt.Sprint", func(p *preCall) Val { return p.fc().freshVal(types.Typ[types.String], "sprint") })

	// ---- strings / bytes
	reg("strings.HasPrefix", func(p *preCall) Val { return boolVal("(str.prefixof " + p.str(1) + " " + p.str(0) + ")") })
	reg("strings.HasSuffix", func(p *preCall) Val { return boolVal("(str.suffixof " + p.str(1) + " " + p.str(0) + ")") })
	reg("strings.Contains", func(p *preCall) Val { return boolVal("(str.contains " + p.str(0) + " " + p.str(1) + ")") })
	reg("strings.TrimPrefix", func(p *preCall) Val {
		s, pre := p.str(0), p.str(1)
		return strVal(ite("(str.prefixof "+pre+" "+s+")", "(str.substr "+s+" (str.len "+pre+") (- (str.len "+s+") (str.len "+pre+")))", s))
	})
	reg("strings.TrimSuffix", func(p *preCall) Val {
		s, suf := p.str(0), p.str(1)
		return strVal(ite("(str.suffixof "+suf+" "+s+")", "(str.substr "+s+" 0 (- (str.len "+s+") (str.len "+suf+")))", s))
	})
	reg("strings.Index", func(p *preCall) Val { return intVal("(str.indexof " + p.str(0) + " " + p.str(1) + " 0)") })
	reg("strings.TrimSpace", func(p *preCall) Val {
		fc := p.fc()
		fc.B.DeclFun("trimspace", []string{"String"}, "String")
		t := "(trimspace " + p.str(0) + ")"
		fc.B.Assert(and("(<= (str.len "+t+") (str.len "+p.str(0)+"))", "(str.contains "+p.str(0)+" "+t+")", implies(eq(p.str(0), "\"\""), eq(t, "\"\""))))
		// blank result: every byte is ASCII white space or part of a multi-byte rune (Unicode spaces such as
		// U+0085/U+00A0 are encoded with bytes >= 0x80); conversely a string of ASCII white space trims to ""
		asciiWS := `(re.union (re.range "\u{9}" "\u{d}") (str.to_re " "))`
		fc.B.Assert(and(
			implies(eq(t, "\"\""), "(str.in_re "+p.str(0)+" (re.* (re.union "+asciiWS+" (re.range \"\\u{80}\" \"\\u{ff}\"))))"),
			implies("(str.in_re "+p.str(0)+" (re.* "+asciiWS+"))", eq(t, "\"\""))))
		return strVal(t)
	})
	reg("strings.Split", func(p *preCall) Val { return p.fr.split(p) })
	reg("strings.Join", func(p *preCall) Val { return p.fr.join(p) })
	reg("strings.ToLower", func(p *preCall) Val {
		fc := p.fc()
		fc.B.DeclFun("tolower", []string{"String"}, "String")
		t := "(tolower " + p.str(0) + ")"
		fc.B.Assert(eq("(str.len "+t+")", "(str.len "+p.str(0)+")"))
		return strVal(t)
	})
	reg("bytes.Equal", func(p *preCall) Val { return boolVal(eq(p.str(0), p.str(1))) })
	reg("bytes.HasPrefix", func(p *preCall) Val { return boolVal("(str.prefixof " + p.str(1) + " " + p.str(0) + ")") })
	reg("bytes.TrimPrefix", func(p *preCall) Val {
		s, pre := p.str(0), p.str(1)
		return bytesVal("(mkB (b_nil " + p.args[0].T + ") " + ite("(str.prefixof "+pre+" "+s+")", "(str.substr "+s+" (str.len "+pre+") (- (str.len "+s+") (str.len "+pre+")))", s) + ")")
	})
	reg("bytes.Contains", func(p *preCall) Val { return boolVal("(str.contains " + p.str(0) + " " + p.str(1) + ")") })
	reg("slices.Clone[[]byte byte]", func(p *preCall) Val { return p.args[0] })
	reg("bytes.Clone", func(p *preCall) Val { return p.args[0] })

	// ---- strconv
	reg("strconv.FormatUint", func(p *preCall) Val { return strVal(p.fc().B.Dec(p.args[0].T)) })
	reg("strconv.Itoa", func(p *preCall) Val {
		fc := p.fc()
		return strVal(ite("(>= "+p.args[0].T+" 0)", fc.B.Dec(p.args[0].T), "(str.++ \"-\" "+fc.B.Dec("(- "+p.args[0].T+")")+")"))
	})
	reg("strconv.ParseUint", func(p *preCall) Val {
		fc := p.fc()
		s := p.str(0)
		if len(p.args) < 3 || p.args[1].T != "10" || p.args[2].T != "64" {
			fc.unsupported("strconv.ParseUint with base/bit size other than the constants 10/64")
		}
		// base 10, 64 bits (checked); deterministic: value and error are functions of the input string
		fc.B.DeclFun("parseuint_val", []string{"String"}, "Int")
		fc.B.DeclFun("parseuint_err", []string{"String"}, "Int")
		if strings.Contains(s, "qv!") {
			fc.unsupported("ParseUint under a quantifier")
		}
		v := "(parseuint_val " + s + ")"
		e := "(parseuint_err " + s + ")"
		if fc.B.inst["parseuint|"+s] {
			return tup(Val{S: "Int", T: v, Typ: types.Typ[types.Uint64]}, Val{S: "Int", T: e, Typ: types.Universe.Lookup("error").Type()})
		}
		fc.B.inst["parseuint|"+s] = true
		// success iff s is a decimal string of a number < 2^bits; then dec(v) with leading zeros stripped... we only state:
		//   err == nil ==> isdigits(s) && 0 <= v < 2^64 && (s == dec(v) || s has leading zeros)
		//   s == dec(x) && 0 <= x < 2^64 ==> err == nil && v == x
		fc.B.Assert(and("(>= "+e+" 0)", "(<= 0 "+v+")", "(< "+v+" "+two64+")",
			implies(eq(e, "0"), and("(str.in_re "+s+" "+digitsRe+")", eq("(undec_lz "+s+")", v))),
			implies(not(eq(e, "0")), eq(v, "0")),
			implies(and("(isdec "+s+")", "(< (undec "+s+") "+two64+")", "(>= (undec "+s+") 0)"), and(eq(e, "0"), eq(v, "(undec "+s+")"))),
		))
		return tup(Val{S: "Int", T: v, Typ: types.Typ[types.Uint64]}, Val{S: "Int", T: e, Typ: types.Universe.Lookup("error").Type()})
	})

	// ---- big endian
	reg("github.com/cosmos/cosmos-sdk/types.Uint64ToBigEndian", func(p *preCall) Val {
		return bytesVal("(mkB false " + p.fc().B.Be64(p.args[0].T) + ")")
	})
	reg("github.com/cosmos/cosmos-sdk/types.BigEndianToUint64", func(p *preCall) Val {
		s := p.str(0)
		return Val{S: "Int", T: ite(eq("(str.len "+s+")", "0"), "0", p.fc().B.UnBe64(s)), Typ: types.Typ[types.Uint64]}
	})
	reg("(encoding/binary.bigEndian).Uint64", func(p *preCall) Val {
		s := p.str(1)
		fc := p.fc()
		fc.safety(p.reach, "(< (str.len "+s+") 8)", "index", p.cc)
		return Val{S: "Int", T: fc.B.UnBe64("(str.substr " + s + " 0 8)"), Typ: types.Typ[types.Uint64]}
	})
	reg("(encoding/binary.bigEndian).AppendUint64", func(p *preCall) Val {
		return bytesVal("(mkB false (str.++ " + p.str(1) + " " + p.fc().B.Be64(p.args[2].T) + "))")
	})

	// ---- hashes
	reg("crypto/sha256.Sum256", func(p *preCall) Val {
		v := bytesVal("(mkB false " + p.fc().B.Hash("sha256", p.str(0)) + ")")
		v.Typ = types.NewArray(types.Typ[types.Byte], 32)
		return v
	})
	reg("github.com/cometbft/cometbft/crypto/tmhash.Sum", func(p *preCall) Val {
		return bytesVal("(mkB false " + p.fc().B.Hash("sha256", p.str(0)) + ")")
	})
	reg("github.com/ethereum/go-ethereum/crypto.Keccak256", func(p *preCall) Val {
		fc := p.fc()
		if len(p.args) == 1 && strings.HasPrefix(p.args[0].S, "(Slice") {
			a := p.args[0]
			fc.B.Note("Keccak256 of a variadic list is modelled for one element")
			return bytesVal("(mkB false " + fc.B.Hash("keccak", "(b_s (select (s_arr "+a.T+") 0))") + ")")
		}
		return bytesVal("(mkB false " + fc.B.Hash("keccak", p.str(0)) + ")")
	})

	// ---- math/big
	regW("(*math/big.Int).SetUint64", func(p *preCall) Val {
		p.fc().store(p.st, p.args[0], Val{S: "Int", T: p.args[1].T})
		return p.args[0]
	})
	regW("(*math/big.Int).SetInt64", func(p *preCall) Val {
		p.fc().store(p.st, p.args[0], Val{S: "Int", T: p.args[1].T})
		return p.args[0]
	})
	reg("(*math/big.Int).Cmp", func(p *preCall) Val {
		fc := p.fc()
		a, b := fc.load(p.st, p.args[0]), fc.load(p.st, p.args[1])
		return Val{S: "Int", T: "(ite (< " + a.T + " " + b.T + ") (- 1) (ite (> " + a.T + " " + b.T + ") 1 0))", Typ: types.Typ[types.Int]}
	})

	// ---- sdk context
	ident := func(p *preCall) Val { return p.args[0] }
	reg("github.com/cosmos/cosmos-sdk/types.UnwrapSDKContext", ident)
	reg("github.com/cosmos/cosmos-sdk/types.WrapSDKContext", ident)
	reg("(github.com/cosmos/cosmos-sdk/types.Context).BlockHeight", func(p *preCall) Val {
		t := "(env_height (c_env " + p.args[0].T + "))"
		p.fc().B.Assert(rangeOf(types.Typ[types.Int64], t))
		return Val{S: "Int", T: t, Typ: types.Typ[types.Int64]}
	})
	reg("(github.com/cosmos/cosmos-sdk/types.Context).BlockTime", func(p *preCall) Val {
		return Val{S: "Int", T: "(env_time (c_env " + p.args[0].T + "))", Typ: p.typ(0)}
	})
	reg("(github.com/cosmos/cosmos-sdk/types.Context).ChainID", func(p *preCall) Val {
		return strVal("(env_chainid (c_env " + p.args[0].T + "))")
	})
	reg("(github.com/cosmos/cosmos-sdk/types.Context).IsCheckTx", func(p *preCall) Val {
		return boolVal("(= (env_exec (c_env " + p.args[0].T + ")) 1)")
	})
	reg("(github.com/cosmos/cosmos-sdk/types.Context).IsReCheckTx", func(p *preCall) Val {
		return boolVal("(= (env_exec (c_env " + p.args[0].T + ")) 2)")
	})
	reg("(github.com/cosmos/cosmos-sdk/types.Context).CacheContext", func(p *preCall) Val {
		fc := p.fc()
		parent := p.args[0]
		br := fc.B.Fresh("branch", "Int")
		fc.B.Assert(and("(> "+br+" 0)", "(not (br_alive0 "+br+"))", not(eq(br, "(c_br "+parent.T+")"))))
		for _, a := range p.st.allocs {
			if strings.HasPrefix(a, "branch") {
				fc.B.Assert(not(eq(br, a)))
			}
		}
		p.st.allocs = append(p.st.allocs, br)
		env := fc.B.Fresh("cenv", "Int")
		fc.B.Assert(and(eq("(env_height "+env+")", "(env_height (c_env "+parent.T+"))"), eq("(env_time "+env+")", "(env_time (c_env "+parent.T+"))"), eq("(env_chainid "+env+")", "(env_chainid (c_env "+parent.T+"))"), eq("(env_exec "+env+")", "(env_exec (c_env "+parent.T+"))")))
		child := Val{S: "Ctx", T: "(mkC " + br + " " + env + ")", Typ: parent.Typ}
		p.st.worlds = fc.def("W", "(Array Int WorldS)", fmt.Sprintf("(store %s %s (select %s (c_br %s)))", p.st.worlds, br, p.st.worlds, parent.T))
		wf := Val{S: "Int", T: "0", Fn: &FnVal{Special: "writeFn", Data: []Val{child, parent}}}
		return tup(child, wf)
	})
	for _, m := range []string{"WithValue", "WithBlockGasMeter", "WithGasMeter", "WithEventManager", "WithKVGasConfig", "WithTransientKVGasConfig", "WithLogger", "WithTxBytes", "WithIsCheckTx", "WithMinGasPrices", "WithBlockHeight", "WithBlockTime", "WithBlockHeader", "WithHeaderInfo", "WithChainID", "WithExecMode", "WithIsReCheckTx"} {
		m := m
		reg("(github.com/cosmos/cosmos-sdk/types.Context)."+m, func(p *preCall) Val {
			fc := p.fc()
			env := fc.B.Fresh("wenv", "Int")
			old := "(c_env " + p.args[0].T + ")"
			keep := []string{}
			if m != "WithBlockHeight" && m != "WithBlockHeader" && m != "WithHeaderInfo" {
				keep = append(keep, eq("(env_height "+env+")", "(env_height "+old+")"))
			}
			if m != "WithBlockTime" && m != "WithBlockHeader" && m != "WithHeaderInfo" {
				keep = append(keep, eq("(env_time "+env+")", "(env_time "+old+")"))
			}
			if m != "WithChainID" && m != "WithBlockHeader" && m != "WithHeaderInfo" {
				keep = append(keep, eq("(env_chainid "+env+")", "(env_chainid "+old+")"))
			}
			if m != "WithIsCheckTx" && m != "WithExecMode" && m != "WithIsReCheckTx" {
				keep = append(keep, eq("(env_exec "+env+")", "(env_exec "+old+")"))
			}
			if m == "WithBlockHeight" {
				keep = append(keep, eq("(env_height "+env+")", p.args[1].T))
			}
			if m == "WithBlockTime" {
				keep = append(keep, eq("(env_time "+env+")", p.args[1].T))
			}
			fc.B.Assert(and(keep...))
			return Val{S: "Ctx", T: "(mkC (c_br " + p.args[0].T + ") " + env + ")", Typ: p.args[0].Typ}
		})
	}
	for _, m := range []string{"EventManager", "Logger", "GasMeter", "BlockGasMeter", "TxBytes", "HeaderInfo", "BlockHeader", "ExecMode", "Value", "ConsensusParams", "KVGasConfig", "TransientKVGasConfig", "MinGasPrices", "VoteInfos", "HeaderHash", "CometInfo"} {
		reg("(github.com/cosmos/cosmos-sdk/types.Context)."+m, func(p *preCall) Val { return p.fr.freshResult(p.resT, "ctxget") })
	}

	// ---- time
	reg("(time.Time).UnixNano", func(p *preCall) Val {
		p.fc().B.Note("time.Time modelled as integer nanoseconds; UnixNano assumed in int64 range")
		t := p.args[0].T
		p.fc().B.Assert(rangeOf(types.Typ[types.Int64], t))
		return Val{S: "Int", T: t, Typ: types.Typ[types.Int64]}
	})
	reg("(time.Time).Unix", func(p *preCall) Val {
		return Val{S: "Int", T: "(div " + p.args[0].T + " 1000000000)", Typ: types.Typ[types.Int64]}
	})
	reg("time.Unix", func(p *preCall) Val {
		return Val{S: "Int", T: "(+ (* " + p.args[0].T + " 1000000000) " + p.args[1].T + ")", Typ: p.typ(0)}
	})
	reg("(time.Time).Before", func(p *preCall) Val { return boolVal("(< " + p.args[0].T + " " + p.args[1].T + ")") })
	reg("(time.Time).After", func(p *preCall) Val { return boolVal("(> " + p.args[0].T + " " + p.args[1].T + ")") })
	reg("(time.Time).Equal", func(p *preCall) Val { return boolVal("(= " + p.args[0].T + " " + p.args[1].T + ")") })
	reg("(time.Time).Add", func(p *preCall) Val {
		p.fc().B.Note("time.Time.Add modelled without saturation")
		return Val{S: "Int", T: "(+ " + p.args[0].T + " " + p.args[1].T + ")", Typ: p.typ(0)}
	})
	reg("(time.Time).Sub", func(p *preCall) Val {
		fc := p.fc()
		d := "(- " + p.args[0].T + " " + p.args[1].T + ")"
		h := pow2(63)
		return Val{S: "Int", T: fc.def("tsub", "Int", "(ite (>= "+d+" "+h+") (- "+h+" 1) (ite (< "+d+" (- "+h+")) (- "+h+") "+d+"))"), Typ: p.typ(0)}
	})
	reg("(time.Time).IsZero", func(p *preCall) Val {
		p.fc().B.DeclFun("time_iszero", []string{"Int"}, "Bool")
		return boolVal("(time_iszero " + p.args[0].T + ")")
	})
	reg("(time.Time).UTC", ident)

	// ---- stores
	regInv("*.OpenKVStore", func(p *preCall) Val {
		svc, ctx := p.args[0], p.args[1]
		return Val{S: "View", T: "(mkV (c_br " + ctx.T + ") " + svcID(svc) + " \"\")", Typ: p.typ(0)}
	})
	reg("(github.com/cosmos/cosmos-sdk/types.Context).KVStore", func(p *preCall) Val {
		ctx, key := p.args[0], p.args[1]
		return Val{S: "View", T: "(mkV (c_br " + ctx.T + ") " + svcID(key) + " \"\")", Typ: p.typ(0)}
	})
	reg("github.com/cosmos/cosmos-sdk/runtime.KVStoreAdapter", ident)
	for _, pk := range []string{"github.com/cosmos/cosmos-sdk/store/v2/prefix", "cosmossdk.io/store/prefix", "github.com/cosmos/cosmos-sdk/store/prefix"} {
		reg(pk+".NewStore", func(p *preCall) Val {
			v := p.args[0]
			return Val{S: "View", T: "(mkV (v_br " + v.T + ") (v_svc " + v.T + ") (str.++ (v_pre " + v.T + ") " + p.str(1) + "))", Typ: p.typ(0)}
		})
	}

	// ---- codec (gogoproto binary codec): deterministic, injective marshal; unmarshal is its inverse
	regInv("github.com/cosmos/cosmos-sdk/codec.BinaryCodec.MustMarshal", func(p *preCall) Val { return p.fr.marshal(p, false) })
	regInv("github.com/cosmos/cosmos-sdk/codec.BinaryCodec.Marshal", func(p *preCall) Val { return p.fr.marshal(p, true) })
	regInv("github.com/cosmos/cosmos-sdk/codec.BinaryCodec.MarshalInterface", func(p *preCall) Val { return p.fr.marshal(p, true) })
	regInv("github.com/cosmos/cosmos-sdk/codec.BinaryCodec.MustUnmarshal", func(p *preCall) Val { return p.fr.unmarshal(p, false) })
	regInv("github.com/cosmos/cosmos-sdk/codec.BinaryCodec.Unmarshal", func(p *preCall) Val { return p.fr.unmarshal(p, true) })
	for _, recv := range []string{"(*github.com/cosmos/cosmos-sdk/codec.ProtoCodec)", "(*github.com/cosmos/cosmos-sdk/codec.LegacyAmino)"} {
		regW(recv+".UnmarshalJSON", func(p *preCall) Val { p.name = "UnmarshalJSON"; return p.fr.unmarshal(p, true) })
		reg(recv+".MustMarshalJSON", func(p *preCall) Val { p.name = "MustMarshalJSON"; return p.fr.marshal(p, false) })
		reg(recv+".MarshalJSON", func(p *preCall) Val { p.name = "MarshalJSON"; return p.fr.marshal(p, true) })
	}
	// codec.Codec embeds BinaryCodec
	regInv("github.com/cosmos/cosmos-sdk/codec.Codec.MustMarshal", func(p *preCall) Val { return p.fr.marshal(p, false) })
	regInv("github.com/cosmos/cosmos-sdk/codec.Codec.Marshal", func(p *preCall) Val { return p.fr.marshal(p, true) })
	regInv("github.com/cosmos/cosmos-sdk/codec.Codec.MarshalInterface", func(p *preCall) Val { return p.fr.marshal(p, true) })
	regInv("github.com/cosmos/cosmos-sdk/codec.Codec.MustUnmarshal", func(p *preCall) Val { return p.fr.unmarshal(p, false) })
	regInv("github.com/cosmos/cosmos-sdk/codec.Codec.Unmarshal", func(p *preCall) Val { return p.fr.unmarshal(p, true) })

	// ---- gogoproto enum names: a deterministic function of the (never reassigned) name table and the value
	reg("github.com/cosmos/gogoproto/proto.EnumName", func(p *preCall) Val {
		fc := p.fc()
		fc.B.DeclFun("enum_name", []string{p.args[0].S, "Int"}, "String")
		return strVal("(enum_name " + p.args[0].T + " " + p.args[1].T + ")")
	})

	// ---- gogoproto proto.Marshal of a message value built in memory: deterministic bytes, no error (A-marshal)
	reg("github.com/cosmos/gogoproto/proto.Marshal", func(p *preCall) Val {
		fc := p.fc()
		fc.B.DeclFun("proto_marshal", []string{p.args[0].S}, "String")
		fc.trusted["A-marshal: gogoproto proto.Marshal does not fail on message values built in memory"] = true
		return tup(bytesVal("(mkB false (proto_marshal "+p.args[0].T+"))"), errNil())
	})

	// ---- cosmos-sdk address.Module(name, key): a hash of (name, key) (T-crypto: uninterpreted, 32 bytes)
	reg("github.com/cosmos/cosmos-sdk/types/address.Module", func(p *preCall) Val {
		fc := p.fc()
		fc.B.DeclFun("address_module", []string{"String", "String"}, "String")
		// exactly one derivation key (the variadic argument array of the call site)
		if len(p.args) != 2 || p.args[1].VA == nil || len(p.args[1].VA.vals) != 1 {
			fc.unsupported("address.Module with other than one derivation key")
			return fc.freshVal(p.resT, "addrmod")
		}
		key, _ := asString(p.args[1].VA.vals[0])
		t := "(address_module " + p.str(0) + " " + key + ")"
		fc.B.Assert(eq("(str.len "+t+")", "32"))
		return bytesVal("(mkB false " + t + ")")
	})

	// ---- sdk misc
	reg("github.com/cosmos/cosmos-sdk/types.AccAddressFromBech32", func(p *preCall) Val {
		fc := p.fc()
		fc.B.DeclFun("bech32_dec", []string{"String"}, "String")
		fc.B.DeclFun("bech32_ok", []string{"String"}, "Bool")
		s := p.str(0)
		e := fc.B.Fresh("bech_err", "Int")
		fc.B.Assert(and("(>= "+e+" 0)", eq(eq(e, "0"), "(bech32_ok "+s+")")))
		return tup(Val{S: "Bytes", T: "(mkB (not (bech32_ok " + s + ")) (ite (bech32_ok " + s + ") (bech32_dec " + s + ") \"\"))", Typ: p.typ(0)}, Val{S: "Int", T: e, Typ: p.typ(1)})
	})
}

// ---- marshal / unmarshal

func (fr *Frame) marshal(p *preCall, withErr bool) Val {
	fc := fr.fc
	msg := p.args[1]
	var obj Val
	if msg.Fn != nil && msg.Fn.Special == "dyn" {
		obj = msg.Fn.Data[0]
	} else {
		fc.B.Note("Marshal of a statically unknown message type: uninterpreted")
		fc.B.DeclFun("marshal_any", []string{"Iface"}, "String")
		bz := bytesVal("(mkB false (marshal_any " + msg.T + "))")
		if withErr {
			return tup(bz, fc.freshErr("merr"))
		}
		return bz
	}
	v := obj
	if _, ok := obj.Typ.Underlying().(*types.Pointer); ok {
		v = fc.load(p.st, obj)
	}
	if strings.HasSuffix(p.name, "JSON") {
		// JSON encoding: a deterministic function of the message (no inverse is assumed)
		jfn := "marshaljson_" + sanitize(v.S)
		fc.B.DeclFun(jfn, []string{v.S}, "String")
		bz := bytesVal("(mkB false (" + jfn + " " + v.T + "))")
		if withErr {
			return tup(bz, errNil())
		}
		return bz
	}
	fn := "marshal_" + sanitize(v.S)
	un := "unmarshal_" + sanitize(v.S)
	fc.B.DeclFun(fn, []string{v.S}, "String")
	fc.B.DeclFun(un, []string{"String"}, v.S)
	fc.unmarshalEmpty(un, derefType(obj.Typ))
	t := "(" + fn + " " + v.T + ")"
	if !fc.B.inst[t] {
		fc.B.inst[t] = true
		fc.B.Assert(eq("("+un+" "+t+")", v.T))
	}
	bz := bytesVal("(mkB false " + t + ")")
	if withErr {
		return tup(bz, errNil())
	}
	return bz
}

func (fr *Frame) unmarshal(p *preCall, withErr bool) Val {
	fc := fr.fc
	bz := p.str(1)
	msg := p.args[2]
	if msg.Fn == nil || msg.Fn.Special != "dyn" {
		fc.unsupported("Unmarshal into statically unknown target in %s", fr.fn.Name())
		fr.havocArg(msg, p.st)
		if withErr {
			return fc.freshErr("uerr")
		}
		return Val{}
	}
	ptr := msg.Fn.Data[0]
	elem := ptr.PBase
	if len(ptr.PPath) > 0 {
		fc.unsupported("Unmarshal into interior pointer")
	}
	s := fc.B.SortOf(elem)
	fn := "marshal_" + sanitize(s)
	un := "unmarshal_" + sanitize(s)
	isJSON := strings.HasSuffix(p.name, "JSON")
	if isJSON {
		un = "unmarshaljson_" + sanitize(s)
		fc.B.DeclFun(un, []string{"String"}, s)
	} else {
		fc.B.DeclFun(fn, []string{s}, "String")
		fc.B.DeclFun(un, []string{"String"}, s)
		fc.unmarshalEmpty(un, elem)
	}
	v := fc.mkVal(elem, "("+un+" "+bz+")")
	fc.assumeWF(v, p.reach)
	if withErr {
		// whether decoding fails, and what a failed decoding leaves behind, are deterministic functions of the bytes
		ef := "unmarshal_err_" + sanitize(s)
		jf := "unmarshal_junk_" + sanitize(s)
		if isJSON {
			ef, jf = "unmarshaljson_err_"+sanitize(s), "unmarshaljson_junk_"+sanitize(s)
		}
		fc.B.DeclFun(ef, []string{"String"}, "Int")
		fc.B.DeclFun(jf, []string{"String"}, s)
		e := Val{S: "Int", T: "(" + ef + " " + bz + ")", Typ: types.Universe.Lookup("error").Type()}
		fc.B.Assert(and("(>= "+e.T+" 0)", implies(not(eq(e.T, "0")), and(not("(is_sentinel "+e.T+")"), not("(is_sentinel (err_root "+e.T+"))")))))
		v.T = ite(eq(e.T, "0"), v.T, "("+jf+" "+bz+")")
		fc.store(p.st, ptr, v)
		return e
	}
	fc.store(p.st, ptr, v)
	return Val{}
}

// ---- fmt.Sprintf with a constant format

func (fr *Frame) sprintf(p *preCall, fi int) Val {
	fc := fr.fc
	var format string
	okFmt := false
	if p.cc != nil {
		if c, ok := p.cc.Args[fi].(*ssa.Const); ok && c.Value != nil {
			format = constant.StringVal(c.Value)
			okFmt = true
		}
	}
	if !okFmt {
		fc.B.Note("Sprintf with non-constant format: uninterpreted")
		return fc.freshVal(types.Typ[types.String], "sprintf")
	}
	va := p.args[fi+1] // []any
	var parts []string
	argi := 0
	i := 0
	lit := ""
	for i < len(format) {
		c := format[i]
		if c != '%' {
			lit += string(c)
			i++
			continue
		}
		if i+1 < len(format) && format[i+1] == '%' {
			lit += "%"
			i += 2
			continue
		}
		if lit != "" {
			parts = append(parts, smtString(lit))
			lit = ""
		}
		j := i + 1
		for j < len(format) && strings.ContainsRune("+-# 0123456789.", rune(format[j])) {
			j++
		}
		verb := byte('v')
		if j < len(format) {
			verb = format[j]
		}
		flags := format[i+1 : j]
		elem := "(select (s_arr " + va.T + ") " + strconv.Itoa(argi) + ")"
		dv, known := fr.varargElem(p, va, argi)
		argi++
		i = j + 1
		switch {
		case known && flags == "" && (verb == 's' || verb == 'v') && (dv.S == "String"):
			parts = append(parts, dv.T)
		case known && flags == "" && (verb == 's' || verb == 'v') && dv.S != "String" && stringerPrelude(fc, dv.Typ) != nil:
			// a fmt.Stringer is formatted through its String method (a named byte slice is not printed raw)
			pf := stringerPrelude(fc, dv.Typ)
			r := pf.fn(&preCall{fr: fr, st: p.st, reach: p.reach, args: []Val{dv}, resT: types.Typ[types.String], name: "String", spec: p.spec})
			parts = append(parts, r.T)
		case known && flags == "" && (verb == 's') && (dv.S == "Bytes") && !hasAnyStringMethod(fc, dv.Typ):
			parts = append(parts, "(b_s "+dv.T+")")
		case known && flags == "" && (verb == 'd' || verb == 'v') && dv.S == "Int" && isIntType(dv.Typ):
			_, signed, _ := intBits(dv.Typ)
			if signed {
				parts = append(parts, ite("(>= "+dv.T+" 0)", fc.B.Dec(dv.T), "(str.++ \"-\" "+fc.B.Dec("(- "+dv.T+")")+")"))
			} else {
				parts = append(parts, fc.B.Dec(dv.T))
			}
		case known && flags == "" && (verb == 's' || verb == 'v') && hasStringMethod(fc, dv.Typ) != nil:
			fn := hasStringMethod(fc, dv.Typ)
			if fc.inlinable(fn, fr.depth) {
				sub := fc.newFrame(fn, fr.depth+1, p.reach)
				res, _, _ := sub.exec([]Val{dv}, nil, p.st.clone())
				if len(res) == 1 {
					parts = append(parts, res[0].T)
					break
				}
			}
			fallthrough
		default:
			fc.B.DeclFun("fmt_any", []string{"Iface", "Int"}, "String")
			parts = append(parts, "(fmt_any "+elem+" "+strconv.Itoa(int(verb))+")")
		}
	}
	if lit != "" {
		parts = append(parts, smtString(lit))
	}
	switch len(parts) {
	case 0:
		return strVal("\"\"")
	case 1:
		return strVal(parts[0])
	}
	return strVal(fc.def("spf", "String", "(str.++ "+strings.Join(parts, " ")+")"))
}

func isIntType(t types.Type) bool {
	if t == nil {
		return false
	}
	_, _, ok := intBits(t)
	return ok
}

func hasStringMethod(fc *FnCtx, t types.Type) *ssa.Function {
	if t == nil {
		return nil
	}
	var pkg *types.Package
	if nt, ok := derefType(t).(*types.Named); ok {
		pkg = nt.Obj().Pkg()
	}
	fn := fc.W.Prog.LookupMethod(t, pkg, "String")
	if fn != nil && len(fn.Blocks) > 0 {
		return fn
	}
	return nil
}

func hasAnyStringMethod(fc *FnCtx, t types.Type) bool {
	return stringMethodOf(fc, t) != nil
}

// stringMethodOf: the String method in the method set of t (nil when there is none; bodies may be absent)
func stringMethodOf(fc *FnCtx, t types.Type) *ssa.Function {
	if t == nil {
		return nil
	}
	sel := types.NewMethodSet(t).Lookup(nil, "String")
	if sel == nil {
		return nil
	}
	if _, isIface := t.Underlying().(*types.Interface); isIface {
		return nil
	}
	return fc.W.Prog.MethodValue(sel)
}

func stringerPrelude(fc *FnCtx, t types.Type) *preFn {
	fn := stringMethodOf(fc, t)
	if fn == nil {
		return nil
	}
	if p, ok := staticPrelude[fn.String()]; ok {
		return &p
	}
	return nil
}

// varargElem returns the concrete value boxed into element i of the call-site argument array.
func (fr *Frame) varargElem(p *preCall, va Val, i int) (Val, bool) {
	if va.VA == nil || i >= len(va.VA.vals) {
		return Val{}, false
	}
	ev := va.VA.vals[i]
	if ev.Fn != nil && ev.Fn.Special == "dyn" && len(ev.Fn.Data) == 1 {
		return ev.Fn.Data[0], true
	}
	if ev.S == "Int" && isErrorType(ev.Typ) {
		return ev, true
	}
	return Val{}, false
}

// ---- strings.Split / Join (ghost sequence of parts)

func (fr *Frame) split(p *preCall) Val {
	fc := fr.fc
	s, sep := p.str(0), p.str(1)
	// deterministic: the result is a function of (s, sep)
	fc.B.DeclFun("split_fn", []string{"String", "String"}, "(Slice String)")
	fc.B.DeclFun("join_str", []string{"(Slice String)", "String"}, "String")
	resT := "(split_fn " + s + " " + sep + ")"
	if fc.B.inst["split|"+resT] || strings.Contains(resT, "qv!") {
		if strings.Contains(resT, "qv!") {
			fc.unsupported("strings.Split under a quantifier")
		}
		return Val{S: "(Slice String)", T: fc.B.inst2["split|"+resT], Typ: types.NewSlice(types.Typ[types.String])}
	}
	res := fc.B.Define("split", "(Slice String)", resT)
	fc.B.inst["split|"+resT] = true
	fc.B.inst2["split|"+resT] = res
	n := "(s_len " + res + ")"
	// exact unrolling of the first K parts (for a non-empty separator): part i is the text before the
	// first separator of the remainder r_i; the number of parts is exact up to K and ">= K+1" beyond.
	const K = 3
	fc.B.Assert(and("(not (s_nil "+res+"))", "(>= "+n+" 1)", "(< "+n+" 9223372036854775808)", eq("(join_str "+res+" "+sep+")", s)))
	nonEmpty := "(> (str.len " + sep + ") 0)"
	rem := s
	more := "true" // all previous remainders contained the separator
	for i := 0; i < K && !fc.B.SplitTail; i++ {
		r := fc.B.Define("split_rem", "String", rem)
		has := "(str.contains " + r + " " + sep + ")"
		idx := "(str.indexof " + r + " " + sep + " 0)"
		part := "(select (s_arr " + res + ") " + strconv.Itoa(i) + ")"
		fc.B.Assert(implies(and(nonEmpty, more), and(
			eq(part, ite(has, "(str.substr "+r+" 0 "+idx+")", r)),
			eq(eq(n, strconv.Itoa(i+1)), not(has)),
			implies(has, "(> "+n+" "+strconv.Itoa(i+1)+")"))))
		if fc.B.SplitRec {
			// the same facts as word equations (consequences of the definitions above; string solvers decompose
			// "part ++ sep ++ rest" much faster than they reason about indexof/substr): the part contains no
			// separator, and the remainder is the part, the separator and the next remainder
			nrem := "(str.substr " + r + " (+ " + idx + " (str.len " + sep + ")) (- (str.len " + r + ") (+ " + idx + " (str.len " + sep + "))))"
			fc.B.Assert(implies(and(nonEmpty, more), and(not("(str.contains "+part+" "+sep+")"), implies(has, eq(r, "(str.++ "+part+" "+sep+" "+nrem+")")))))
		}
		more = and(more, has)
		rem = "(str.substr " + r + " (+ " + idx + " (str.len " + sep + ")) (- (str.len " + r + ") (+ " + idx + " (str.len " + sep + "))))"
	}
	// the last part, for any number of parts: it contains no separator, and the input is the join of the
	// parts before it, the separator, and the last part (right unrolling of Join over the prefix res[:n-1],
	// written exactly as the engine writes that sub-slice)
	last := "(select (s_arr " + res + ") (- " + n + " 1))"
	if fc.B.SplitExt || fc.B.SplitTail {
		fc.B.Assert(implies(nonEmpty, and(
			not("(str.contains "+last+" "+sep+")"),
			implies("(>= "+n+" 2)", eq(s, "(str.++ (join_str (mkS false (- "+n+" 1) (s_arr "+res+")) "+sep+") "+sep+" "+last+")")),
			eq("(>= "+n+" 2)", "(str.contains "+s+" "+sep+")"))))
	}
	if fc.B.SplitExt || fc.B.SplitTail {
		// the input is the parts joined by the separator (written out for up to three parts)
		pt := func(i int) string { return "(select (s_arr " + res + ") " + strconv.Itoa(i) + ")" }
		fc.B.Assert(and(
			implies(eq(n, "1"), eq(s, pt(0))),
			implies(eq(n, "2"), eq(s, "(str.++ "+pt(0)+" "+sep+" "+pt(1)+")")),
			implies(eq(n, "3"), eq(s, "(str.++ "+pt(0)+" "+sep+" "+pt(1)+" "+sep+" "+pt(2)+")"))))
		// the separator is a prefix of the input and does not occur again: exactly ["", rest]
		fc.B.Assert(implies(and(nonEmpty, "(str.prefixof "+sep+" "+s+")", not("(str.contains (str.substr "+s+" 1 (- (str.len "+s+") 1)) "+sep+")")),
			and(eq(n, "2"), eq("(select (s_arr "+res+") 0)", "\"\""), eq("(select (s_arr "+res+") 1)", "(str.substr "+s+" (str.len "+sep+") (- (str.len "+s+") (str.len "+sep+")))"))))
	}
	if fc.B.SplitRec {
		// the input is the left-to-right join of all parts
		fc.B.JoinFrom()
		fc.B.Assert(eq("(join_from "+res+" "+sep+" 0)", s))
	}
	fc.B.Note("strings.Split: parts 0..3 and the part count up to 4 are exact (first-separator unrolling); beyond that only join/no-separator facts")
	return Val{S: "(Slice String)", T: res, Typ: types.NewSlice(types.Typ[types.String])}
}

func (fr *Frame) join(p *preCall) Val {
	fc := fr.fc
	fc.B.DeclFun("join_str", []string{"(Slice String)", "String"}, "String")
	a, sep := p.args[0], p.str(1)
	t := "(join_str " + a.T + " " + sep + ")"
	if fc.B.SplitRec {
		fc.B.JoinFrom()
		fc.B.Assert(eq(t, "(join_from "+a.T+" "+sep+" 0)"))
	}
	fc.B.Assert(and(
		implies(eq("(s_len "+a.T+")", "0"), eq(t, "\"\"")),
		implies(eq("(s_len "+a.T+")", "1"), eq(t, "(select (s_arr "+a.T+") 0)")),
		implies(eq("(s_len "+a.T+")", "2"), eq(t, "(str.++ (select (s_arr "+a.T+") 0) "+sep+" (select (s_arr "+a.T+") 1))")),
	))
	return strVal(t)
}

// ---- KV store views

func (fr *Frame) viewOp(m string, recv Val, args []Val, cc *ssa.CallCommon, resT types.Type, st *State, reach string) Val {
	fc := fr.fc
	w := "(select " + st.worlds + " (v_br " + recv.T + "))"
	kv := "(select (w_kv " + w + ") (v_svc " + recv.T + "))"
	key := func() string {
		s, _ := asString(args[0])
		return "(str.++ (v_pre " + recv.T + ") " + s + ")"
	}
	setKV := func(nkv string) {
		nw := "(mkW (store (w_kv " + w + ") (v_svc " + recv.T + ") " + nkv + ") (w_led " + w + ") (w_aux " + w + "))"
		st.worlds = fc.B.Define("W", "(Array Int WorldS)", "(store "+st.worlds+" (v_br "+recv.T+") "+nw+")")
	}
	ntup := 1
	if t, ok := resT.(*types.Tuple); ok {
		ntup = t.Len()
	}
	withErr := func(v Val) Val {
		if ntup == 2 {
			return tup(v, errNil())
		}
		return v
	}
	fc.trusted["A-store: KVStore Get/Has/Set/Delete never return an error; Get of an absent key returns nil"] = true
	switch m {
	case "Get":
		k := fc.def("key", "String", key())
		v := bytesVal(fc.def("got", "Bytes", "(ite "+kvHas(kv, k)+" (mkB false (select (kv_val "+kv+") "+k+")) (mkB true \"\"))"))
		return withErr(v)
	case "Has":
		return withErr(boolVal(kvHas(kv, key())))
	case "Set":
		k := fc.def("key", "String", key())
		vs, _ := asString(args[1])
		setKV(kvSet(kv, k, vs))
		if ntup == 1 {
			if _, ok := resT.(*types.Tuple); ok || isErrorType(resT) {
				return errNil()
			}
		}
		return Val{}
	case "Delete":
		k := fc.def("key", "String", key())
		setKV(kvDel(kv, k))
		if ntup == 1 {
			if _, ok := resT.(*types.Tuple); ok || isErrorType(resT) {
				return errNil()
			}
		}
		return Val{}
	}
	fc.opaque["KVStore."+m] = true
	return fr.freshResult(resT, "viewop")
}

// ---- globals

func (fc *FnCtx) loadGlobal(g *ssa.Global, t types.Type) Val {
	pk := g.Pkg.Pkg.Path()
	if isErrorType(t) || isSentinelErrType(t) {
		return Val{S: "Int", T: fc.B.Sentinel(pk, g.Name()), Typ: t}
	}
	if v, ok := fc.globalConst(pk, g.Name(), t); ok {
		return v
	}
	if _, isFn := t.Underlying().(*types.Signature); isFn {
		return Val{S: "Int", T: "0", Typ: t, Fn: &FnVal{Special: "globalfn:" + pk + "." + g.Name()}}
	}
	name := "glob_" + sanitize(shortPkg(pk)) + "_" + g.Name()
	s := fc.B.SortOf(t)
	if !fc.B.declared["glob:"+name] {
		fc.B.declared["glob:"+name] = true
		fc.B.Raw(fmt.Sprintf("(declare-const %s %s)", name, s))
		fc.B.Assert(fc.wf(t, name, 0))
		fc.B.Note("global " + pk + "." + g.Name() + " read as an unconstrained constant")
	}
	v := fc.mkVal(t, name)
	return v
}

// globalConst: package-level vars initialised with a literal and never reassigned are constants.
func (fc *FnCtx) globalConst(pkgPath, name string, t types.Type) (Val, bool) {
	p := fc.W.ByPath[pkgPath]
	if p == nil {
		return Val{}, false
	}
	for _, f := range p.Syntax {
		for _, d := range f.Decls {
			gd, ok := d.(*ast.GenDecl)
			if !ok || gd.Tok != token.VAR {
				continue
			}
			for _, sp := range gd.Specs {
				vs := sp.(*ast.ValueSpec)
				for i, n := range vs.Names {
					if n.Name != name || i >= len(vs.Values) {
						continue
					}
					tv, ok := p.TypesInfo.Types[vs.Values[i]]
					if ok && tv.Value != nil {
						switch tv.Value.Kind() {
						case constant.String:
							return Val{S: "String", T: smtString(constant.StringVal(tv.Value)), Typ: t}, true
						case constant.Int:
							return Val{S: "Int", T: intLit(tv.Value.ExactString()), Typ: t}, true
						case constant.Bool:
							return boolVal(strconv.FormatBool(constant.BoolVal(tv.Value))), true
						}
					}
					// []byte("literal") / []byte{...}
					if call, ok := vs.Values[i].(*ast.CallExpr); ok && len(call.Args) == 1 {
						if atv, ok := p.TypesInfo.Types[call.Args[0]]; ok && atv.Value != nil && atv.Value.Kind() == constant.String && fc.B.SortOf(t) == "Bytes" {
							return Val{S: "Bytes", T: "(mkB false " + smtString(constant.StringVal(atv.Value)) + ")", Typ: t}, true
						}
					}
					if cl, ok := vs.Values[i].(*ast.CompositeLit); ok && fc.B.SortOf(t) == "Bytes" {
						var bs []byte
						good := true
						for _, el := range cl.Elts {
							etv, ok := p.TypesInfo.Types[el]
							if !ok || etv.Value == nil {
								good = false
								break
							}
							u, ok := constant.Uint64Val(constant.ToInt(etv.Value))
							if !ok {
								good = false
								break
							}
							bs = append(bs, byte(u))
						}
						if good {
							return Val{S: "Bytes", T: "(mkB false " + smtString(string(bs)) + ")", Typ: t}, true
						}
					}
				}
			}
		}
	}
	return Val{}, false
}

// ---- applying a callee's contract at a call site

func (fr *Frame) applyContract(c *Contract, callee *ssa.Function, args []Val, resT types.Type, st *State, reach string, name string) Val {
	fc := fr.fc
	fc.usedCtr[c.Target] = true
	if c.Trusted != "" {
		fc.trusted["trusted contract "+c.Target+": "+c.Trusted] = true
	}
	pre := st.clone()
	var sig *types.Signature
	mkEnv := func(results []Val, old, cur *State) *Env {
		if callee != nil {
			env := fc.contractEnv(callee, args, results, old, cur)
			env.pkgPath = c.PkgPath
			return env
		}
		return fc.ifaceEnv(c, sig, args, results, old, cur)
	}
	if callee != nil {
		sig = callee.Signature
	} else {
		sig = fc.ifaceSig(c)
		if sig == nil {
			fc.unsupported("interface contract %s: method not found", c.Target)
			return fr.freshResult(resT, "ctr")
		}
	}
	envPre := mkEnv(nil, &pre, &pre)
	lets := map[string]Val{}
	for _, l := range c.Lets {
		v := envPre.eval(l.E)
		envPre.vars[l.Name] = v
		lets[l.Name] = v
	}
	fc.callN[name]++
	for i, r := range c.Requires {
		if fc.inSpec > 0 {
			break // a call inside a contract expression (specification context): no proof obligation
		}
		g := fc.evalBool(envPre, r.E)
		fc.addObl(fmt.Sprintf("#req.%s@%s.%d", clauseName(r, i), shortFn(name), fc.callN[name]), "body", and(reach, not(g)), r.Src)
	}
	// havoc what the contract may modify
	for _, m := range c.Modifies {
		switch {
		case strings.HasPrefix(m, "world(") && strings.HasSuffix(m, ")"):
			e, err := ParseExpr(m[6 : len(m)-1])
			if err != nil {
				fc.unsupported("bad modifies %q", m)
				continue
			}
			ctx := envPre.eval(e)
			fr.havocArg(ctx, st)
		case strings.HasPrefix(m, "ghost "):
			g := strings.TrimSpace(m[6:])
			st.ghosts[g] = fc.B.Fresh("G_"+g, fc.ghostSort(g))
		case strings.HasPrefix(m, "*"):
			e, err := ParseExpr(m[1:])
			if err != nil {
				fc.unsupported("bad modifies %q", m)
				continue
			}
			fr.havocArg(envPre.eval(e), st)
		case strings.HasPrefix(m, "calls "):
			k := strings.TrimSpace(m[6:])
			st.ghosts["#calls:"+k] = fc.B.Fresh("N_"+k, "Int")
		case m == "":
		default:
			fc.unsupported("modifies clause %q", m)
		}
	}
	var res Val
	if c.Flags["pure"] && len(c.Modifies) == 0 {
		// pure contracted function: its results are (uninterpreted) functions of the arguments, so two calls
		// with equal arguments yield equal results
		res = fr.pureResult(resT, name, args, &pre)
	} else {
		res = fr.freshResult(resT, "r_"+shortFn(name))
	}
	results := flatten(res)
	if tupT, ok := resT.(*types.Tuple); ok && tupT.Len() == 0 {
		results = nil
	}
	for _, v := range results {
		fc.assumeAlive(st, v)
	}
	envPost := mkEnv(results, &pre, st)
	for k, v := range lets {
		envPost.vars[k] = v
	}
	if c.Flags["abstract"] && c.Flags["pure"] {
		// abstract pure function: callers only learn that the result is a function of the arguments
		// (its meaning is proved against the body, and is not needed/assumed at call sites)
		return res
	}
	underQuant := false
	for _, a := range args {
		for _, x := range flatten(a) {
			if strings.Contains(x.T, "qv!") {
				underQuant = true
			}
		}
	}
	for _, en := range c.Ensures {
		g := fc.evalBool(envPost, en.E)
		if underQuant {
			// the call occurs under a quantifier of a contract formula (an argument is a bound variable): its
			// postcondition cannot be stated globally; leaving an assumption out is sound
			continue
		}
		fc.B.Assert(implies(reach, g))
	}
	return res
}

func shortFn(name string) string {
	if i := strings.LastIndex(name, "/"); i >= 0 {
		return name[i+1:]
	}
	return name
}

func (fc *FnCtx) ifaceSig(c *Contract) *types.Signature {
	// target: "<shortpkg>.<Iface>.<Method>"
	i := strings.LastIndex(c.Target, ".")
	if i < 0 {
		return nil
	}
	method := c.Target[i+1:]
	t := fc.W.lookupType(c.Target[:i])
	if t == nil {
		return nil
	}
	it, ok := t.Underlying().(*types.Interface)
	if !ok {
		return nil
	}
	for k := 0; k < it.NumMethods(); k++ {
		if it.Method(k).Name() == method {
			return it.Method(k).Type().(*types.Signature)
		}
	}
	return nil
}
