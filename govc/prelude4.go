package main

import "go/types"

// effAuth: the authority sdk.ValidateAuthority compares against: the consensus-params authority when set,
// otherwise the keeper's configured authority.
func effAuth(ctxT, keeperAuth string) string {
	return "(ite (= (env_auth (c_env " + ctxT + ")) \"\") " + keeperAuth + " (env_auth (c_env " + ctxT + ")))"
}

func init() {
	reg("github.com/cosmos/cosmos-sdk/types.ValidateAuthority", func(p *preCall) Val {
		fc := p.fc()
		fc.B.DeclFun("env_auth", []string{"Int"}, "String")
		ok := eq(effAuth(p.args[0].T, p.str(1)), p.str(2))
		e := fc.B.Fresh("autherr", "Int")
		fc.B.Assert(and("(>= "+e+" 0)", eq(eq(e, "0"), ok), "(not (is_sentinel "+e+"))"))
		fc.trusted["sdk.ValidateAuthority: nil iff signer == (consensus-params authority if set, else keeper authority)"] = true
		return Val{S: "Int", T: e, Typ: types.Universe.Lookup("error").Type()}
	})
	reg("github.com/cosmos/cosmos-sdk/types.MustAccAddressFromBech32", func(p *preCall) Val {
		fc := p.fc()
		fc.B.DeclFun("bech32_dec", []string{"String"}, "String")
		fc.B.DeclFun("bech32_ok", []string{"String"}, "Bool")
		s := p.str(0)
		// a successfully decoded address is never empty (sdk.VerifyAddressFormat)
		fc.B.Assert(implies("(bech32_ok "+s+")", "(> (str.len (bech32_dec "+s+")) 0)"))
		if p.cc != nil {
			fc.safety(p.reach, not("(bech32_ok "+s+")"), "must-bech32", p.cc)
		}
		return Val{S: "Bytes", T: "(mkB false (bech32_dec " + s + "))", Typ: p.typ(0)}
	})
	reg("(github.com/cosmos/cosmos-sdk/types.AccAddress).Equals", func(p *preCall) Val {
		// Address.Equals: both empty, or equal bytes; the argument is an Address interface value
		a := p.str(0)
		b := p.args[1]
		var bs string
		if b.Fn != nil && b.Fn.Special == "dyn" && len(b.Fn.Data) == 1 {
			bs, _ = asString(b.Fn.Data[0])
		}
		if bs == "" {
			p.fc().unsupported("AccAddress.Equals with a statically unknown argument")
			return p.fc().freshVal(types.Typ[types.Bool], "addr_eq")
		}
		return boolVal(eq(a, bs))
	})
	reg("(github.com/cosmos/cosmos-sdk/types.AccAddress).String", func(p *preCall) Val {
		fc := p.fc()
		fc.B.DeclFun("bech32_enc", []string{"String"}, "String")
		return strVal("(bech32_enc " + p.str(0) + ")")
	})
	reg("(github.com/cosmos/cosmos-sdk/types.AccAddress).Empty", func(p *preCall) Val {
		return boolVal(eq("(str.len "+p.str(0)+")", "0"))
	})
	reg("(github.com/cosmos/cosmos-sdk/types.AccAddress).Bytes", func(p *preCall) Val { return p.args[0] })
}

func init() {
	// gas meters: on a path that has not panicked the meter is within its limit (ConsumeGas panics when
	// the limit is exceeded). The exceptional (panic/out-of-gas) flow is not modelled: see C40 not_decided.
	for _, pk := range []string{"github.com/cosmos/cosmos-sdk/store/v2/types", "cosmossdk.io/store/types", "github.com/cosmos/cosmos-sdk/store/types"} {
		regInv(pk+".GasMeter.IsPastLimit", func(p *preCall) Val {
			p.fc().trusted["A-gas: on a non-panicking path a gas meter is not past its limit (exceptional flow not modelled)"] = true
			return boolVal("false")
		})
		regInv(pk+".GasMeter.IsOutOfGas", func(p *preCall) Val {
			return p.fc().freshVal(types.Typ[types.Bool], "oog")
		})
		for _, m := range []string{"GasConsumed", "GasConsumedToLimit", "GasRemaining", "Limit"} {
			regInv(pk+".GasMeter."+m, func(p *preCall) Val { return p.fc().freshVal(types.Typ[types.Uint64], "gas") })
		}
		regInv(pk+".GasMeter.ConsumeGas", func(p *preCall) Val { return Val{} })
		regInv(pk+".GasMeter.RefundGas", func(p *preCall) Val { return Val{} })
	}
}
