package main

import (
	"fmt"
	"go/types"
	"regexp"
	"sort"
	"strconv"
	"strings"
)

// SMT accumulates one script (declarations, definitions, assertions in order).
type SMT struct {
	lines    []string
	declared map[string]bool
	n        int
	w        *World
	// struct sorts in progress (cycle detection)
	inProg map[string]bool
	// ground-axiom instantiation cache
	inst  map[string]bool
	inst2 map[string]string
	// DecFull: emit the digit-class/length facts for decimal renderings
	DecFull bool
	// SplitTail: strings.Split results get only the last-part / join facts, not the first-separator unrolling
	// (contract flag `splittail`; leaving assumptions out is sound and keeps the string goals small)
	SplitTail bool
	// SplitExt: additionally the join-of-parts, separator-is-prefix and last-part facts (contract flag `splitext`)
	SplitExt bool
	// SplitRec: strings.Split/Join are related through the recursive function join_from (contract flag `splitrec`)
	SplitRec bool
	// concrete type tags
	tags map[string]int
	// used sentinel errors
	sentinels map[string]bool
	// notes
	Notes map[string]bool
	// struct sort -> field info
	structs map[string]*structInfo
}

type structInfo struct {
	sort   string
	ctor   string
	fields []fieldInfo
	byName map[string]int
}
type fieldInfo struct {
	name string // Go field name
	sel  string // SMT selector
	sort string
	typ  types.Type
}

func NewSMT(w *World) *SMT {
	b := &SMT{declared: map[string]bool{}, w: w, inProg: map[string]bool{}, inst: map[string]bool{}, inst2: map[string]string{}, tags: map[string]int{}, sentinels: map[string]bool{}, Notes: map[string]bool{}, structs: map[string]*structInfo{}}
	b.lines = append(b.lines, preludeSMT)
	return b
}

const two64 = "18446744073709551616"

// base prelude: fixed sorts
const preludeSMT = `(set-option :produce-models true)
(set-logic ALL)
(declare-datatypes ((Bytes 0)) (((mkB (b_nil Bool) (b_s String)))))
(declare-datatypes ((Slice 1)) ((par (T) ((mkS (s_nil Bool) (s_len Int) (s_arr (Array Int T)))))))
(declare-datatypes ((Iface 0)) (((mkI (i_tag Int) (i_pl Int)))))
(declare-datatypes ((KV 0)) (((mkKV (kv_has (Array String Bool)) (kv_val (Array String String))))))
(declare-datatypes ((Ledger 0)) (((mkL (l_bal (Array String (Array String Int))) (l_supply (Array String Int))))))
(declare-datatypes ((WorldS 0)) (((mkW (w_kv (Array Int KV)) (w_led Ledger) (w_aux (Array Int Int))))))
(declare-datatypes ((View 0)) (((mkV (v_br Int) (v_svc Int) (v_pre String)))))
(declare-datatypes ((Ctx 0)) (((mkC (c_br Int) (c_env Int)))))
(declare-fun err_root (Int) Int)
(declare-fun is_sentinel (Int) Bool)
(declare-fun alive0 (Int) Bool)
(declare-fun br_alive0 (Int) Bool)
(declare-fun be64 (Int) String)
(declare-fun unbe64 (String) Int)
(declare-fun sha256 (String) String)
(declare-fun unsha256 (String) String)
(declare-fun keccak (String) String)
(declare-fun unkeccak (String) String)
(declare-fun dec (Int) String)
(declare-fun undec (String) Int)
(declare-fun isdec (String) Bool)
(declare-fun undec_lz (String) Int)
(declare-fun env_height (Int) Int)
(declare-fun env_time (Int) Int)
(declare-fun env_chainid (Int) String)
(declare-fun env_gas (Int) Int)
(declare-fun env_exec (Int) Int)
`

func (b *SMT) Raw(s string) { b.lines = append(b.lines, s) }

var qvRe = regexp.MustCompile(`qv![A-Za-z0-9_]+![0-9]+`)

// hasFreeQV: the term mentions a bound variable of a contract quantifier outside any binder for it.
func hasFreeQV(t string) bool {
	if !strings.Contains(t, "qv!") {
		return false
	}
	for _, v := range qvRe.FindAllString(t, -1) {
		if !strings.Contains(t, "("+v+" ") {
			return true
		}
	}
	return false
}

func (b *SMT) Assert(t string) {
	if t == "true" {
		return
	}
	if hasFreeQV(t) {
		// a library fact about a term under a quantifier of a contract formula: it cannot be stated at top
		// level; leaving an assumption out is sound
		return
	}
	b.lines = append(b.lines, "(assert "+t+")")
}

func (b *SMT) AssertNamed(t, comment string) {
	b.lines = append(b.lines, "; "+comment)
	b.Assert(t)
}

var identRe = regexp.MustCompile(`[^A-Za-z0-9_]`)

func sanitize(s string) string { return identRe.ReplaceAllString(s, "_") }

func (b *SMT) Fresh(prefix, sort string) string {
	b.n++
	name := fmt.Sprintf("%s!%d", sanitize(prefix), b.n)
	b.lines = append(b.lines, fmt.Sprintf("(declare-const %s %s)", name, sort))
	return name
}

func (b *SMT) Define(prefix, sort, term string) string {
	if strings.Contains(term, "qv!") {
		return term // mentions a bound variable of an enclosing quantifier: cannot be named globally
	}
	if sort == "Bytes" && strings.HasPrefix(term, "(mkB ") {
		// name the content string, keep the constructor visible (so selector-over-constructor simplifies)
		a := len("(mkB ")
		if e1 := sexprEnd(term, a); e1 > 0 && e1 < len(term) && term[e1] == ' ' {
			if e2 := sexprEnd(term, e1+1); e2 > 0 && e2 == len(term)-1 {
				inner := term[e1+1 : e2]
				if len(inner) > 40 {
					inner = b.Define(prefix+"_s", "String", inner)
				}
				return "(mkB " + term[a:e1] + " " + inner + ")"
			}
		}
	}
	b.n++
	name := fmt.Sprintf("%s!%d", sanitize(prefix), b.n)
	b.lines = append(b.lines, fmt.Sprintf("(define-fun %s () %s %s)", name, sort, term))
	return name
}

func (b *SMT) DeclFun(name string, args []string, ret string) {
	if b.declared["fun:"+name] {
		return
	}
	b.declared["fun:"+name] = true
	b.lines = append(b.lines, fmt.Sprintf("(declare-fun %s (%s) %s)", name, strings.Join(args, " "), ret))
}

// JoinFrom declares join_from(a, sep, i): the elements a[i:] joined by sep (the definition of strings.Join,
// written recursively from the left).
func (b *SMT) JoinFrom() {
	if b.declared["fun:join_from"] {
		return
	}
	b.declared["fun:join_from"] = true
	b.lines = append(b.lines, `(define-fun-rec join_from ((a (Slice String)) (sep String) (i Int)) String (ite (or (< i 0) (>= i (s_len a))) "" (ite (= i (- (s_len a) 1)) (select (s_arr a) i) (str.++ (select (s_arr a) i) sep (join_from a sep (+ i 1))))))`)
}

func (b *SMT) Script() string { return strings.Join(simplifyScript(b.lines), "\n") + "\n" }

func (b *SMT) Note(s string) { b.Notes[s] = true }

// ---- term helpers

func and(ts ...string) string {
	var out []string
	for _, t := range ts {
		if t == "true" || t == "" {
			continue
		}
		if t == "false" {
			return "false"
		}
		out = append(out, t)
	}
	switch len(out) {
	case 0:
		return "true"
	case 1:
		return out[0]
	}
	return "(and " + strings.Join(out, " ") + ")"
}

func or(ts ...string) string {
	var out []string
	for _, t := range ts {
		if t == "false" || t == "" {
			continue
		}
		if t == "true" {
			return "true"
		}
		out = append(out, t)
	}
	switch len(out) {
	case 0:
		return "false"
	case 1:
		return out[0]
	}
	return "(or " + strings.Join(out, " ") + ")"
}

func not(t string) string {
	switch t {
	case "true":
		return "false"
	case "false":
		return "true"
	}
	if strings.HasPrefix(t, "(not ") && balanced(t[5:len(t)-1]) {
		return t[5 : len(t)-1]
	}
	return "(not " + t + ")"
}

func balanced(s string) bool {
	d := 0
	inStr := false
	for i := 0; i < len(s); i++ {
		c := s[i]
		if inStr {
			if c == '"' {
				inStr = false
			}
			continue
		}
		switch c {
		case '"':
			inStr = true
		case '(':
			d++
		case ')':
			d--
			if d < 0 {
				return false
			}
		}
	}
	return d == 0
}

func implies(a, c string) string {
	if a == "true" {
		return c
	}
	if c == "true" || a == "false" {
		return "true"
	}
	return "(=> " + a + " " + c + ")"
}

func ite(c, a, b string) string {
	if c == "true" {
		return a
	}
	if c == "false" {
		return b
	}
	if a == b {
		return a
	}
	return "(ite " + c + " " + a + " " + b + ")"
}

func eq(a, b string) string {
	if a == b {
		return "true"
	}
	return "(= " + a + " " + b + ")"
}

func app(f string, args ...string) string {
	if len(args) == 0 {
		return f
	}
	return "(" + f + " " + strings.Join(args, " ") + ")"
}

func intLit(s string) string {
	if strings.HasPrefix(s, "-") {
		return "(- " + s[1:] + ")"
	}
	return s
}

// smtString renders a Go string (arbitrary bytes) as an SMT-LIB string literal.
func smtString(s string) string {
	var sb strings.Builder
	sb.WriteByte('"')
	for i := 0; i < len(s); i++ {
		c := s[i]
		switch {
		case c == '"':
			sb.WriteString(`""`)
		case c == '\\':
			sb.WriteString(`\u{5c}`)
		case c >= 0x20 && c < 0x7f:
			sb.WriteByte(c)
		default:
			sb.WriteString(`\u{` + strconv.FormatInt(int64(c), 16) + `}`)
		}
	}
	sb.WriteByte('"')
	return sb.String()
}

// ---- sorts

func isByte(t types.Type) bool {
	bt, ok := t.Underlying().(*types.Basic)
	return ok && (bt.Kind() == types.Uint8)
}

func isErrorType(t types.Type) bool {
	return types.Identical(t, types.Universe.Lookup("error").Type())
}

func typeQual(t types.Type) string {
	return types.TypeString(t, func(p *types.Package) string { return p.Path() })
}

func isNamed(t types.Type, qual string) bool {
	n, ok := t.(*types.Named)
	if !ok {
		if a, ok2 := t.(*types.Alias); ok2 {
			return isNamed(types.Unalias(a), qual)
		}
		return false
	}
	if n.Obj().Pkg() == nil {
		return false
	}
	return n.Obj().Pkg().Path()+"."+n.Obj().Name() == qual
}

var ifaceAsView = map[string]bool{
	"cosmossdk.io/core/store.KVStore":                         true,
	"github.com/cosmos/cosmos-sdk/store/v2/types.KVStore":     true,
	"cosmossdk.io/store/types.KVStore":                        true,
	"github.com/cosmos/cosmos-sdk/store/types.KVStore":        true,
	"github.com/cosmos/cosmos-sdk/store/v2/prefix.Store":      true,
	"github.com/cosmos/cosmos-sdk/store/prefix.Store":         true,
	"cosmossdk.io/store/prefix.Store":                         true,
	"github.com/cosmos/cosmos-sdk/store/v2/types.BasicKVStore": true,
}

func isKVStoreIface(u *types.Interface) bool {
	need := map[string]bool{"Get": false, "Has": false, "Set": false, "Delete": false}
	for i := 0; i < u.NumMethods(); i++ {
		if _, ok := need[u.Method(i).Name()]; ok {
			need[u.Method(i).Name()] = true
		}
	}
	for _, v := range need {
		if !v {
			return false
		}
	}
	return true
}

func isSentinelErrType(t types.Type) bool {
	p, ok := types.Unalias(t).Underlying().(*types.Pointer)
	if !ok {
		return false
	}
	return isNamed(p.Elem(), "cosmossdk.io/errors.Error")
}

// SortOf maps a Go type to an SMT sort (declaring datatypes as needed).
func (b *SMT) SortOf(t types.Type) string {
	t = types.Unalias(t)
	if isErrorType(t) {
		return "Int"
	}
	if n, ok := t.(*types.Named); ok && n.Obj().Pkg() != nil {
		q := n.Obj().Pkg().Path() + "." + n.Obj().Name()
		switch q {
		case "math/big.Int":
			return "Int"
		case "cosmossdk.io/math.Int", "cosmossdk.io/math.Uint", "cosmossdk.io/math.LegacyDec":
			return "Int"
		case "time.Time":
			return "Int"
		case "github.com/cosmos/cosmos-sdk/types.Context":
			return "Ctx"
		case "context.Context":
			return "Ctx"
		}
		if ifaceAsView[q] {
			return "View"
		}
	}
	switch u := t.Underlying().(type) {
	case *types.Basic:
		switch {
		case u.Info()&types.IsBoolean != 0:
			return "Bool"
		case u.Info()&types.IsInteger != 0:
			return "Int"
		case u.Info()&types.IsString != 0:
			return "String"
		case u.Info()&types.IsFloat != 0:
			return "(_ FloatingPoint 11 53)"
		case u.Kind() == types.UnsafePointer:
			return "Int"
		case u.Kind() == types.UntypedNil:
			return "Int"
		}
	case *types.Slice:
		if isByte(u.Elem()) {
			return "Bytes"
		}
		return "(Slice " + b.SortOf(u.Elem()) + ")"
	case *types.Array:
		if isByte(u.Elem()) {
			return "Bytes"
		}
		return "(Slice " + b.SortOf(u.Elem()) + ")"
	case *types.Pointer:
		return "Int"
	case *types.Map, *types.Chan, *types.Signature:
		return "Int"
	case *types.Interface:
		if isKVStoreIface(u) {
			return "View"
		}
		return "Iface"
	case *types.Struct:
		return b.structSort(t, u)
	case *types.Tuple:
		return "Int"
	}
	b.Note("unsupported type " + t.String())
	return "Int"
}

func (b *SMT) structName(t types.Type) string {
	if n, ok := t.(*types.Named); ok {
		pk := ""
		if n.Obj().Pkg() != nil {
			pk = shortPkg(n.Obj().Pkg().Path())
			pk = strings.TrimPrefix(pk, "modules/")
			pk = strings.TrimPrefix(pk, "github.com/")
		}
		s := "T_" + sanitize(pk) + "_" + n.Obj().Name()
		if ta := n.TypeArgs(); ta != nil {
			for i := 0; i < ta.Len(); i++ {
				s += "_" + sanitize(ta.At(i).String())
			}
		}
		return s
	}
	return "T_anon_" + sanitize(t.String())
}

func (b *SMT) structSort(t types.Type, st *types.Struct) string {
	name := b.structName(t)
	if len(name) > 120 {
		name = name[:100] + "_" + strconv.Itoa(len(name))
	}
	if b.declared["sort:"+name] {
		return name
	}
	if b.inProg[name] {
		b.Note("recursive struct " + name + " abstracted")
		return "Int"
	}
	b.inProg[name] = true
	info := &structInfo{sort: name, ctor: "mk_" + name, byName: map[string]int{}}
	var fs []string
	for i := 0; i < st.NumFields(); i++ {
		f := st.Field(i)
		if strings.HasPrefix(f.Name(), "XXX_") {
			continue
		}
		fsort := b.SortOf(f.Type())
		sel := name + "." + sanitize(f.Name())
		info.byName[f.Name()] = len(info.fields)
		info.fields = append(info.fields, fieldInfo{name: f.Name(), sel: sel, sort: fsort, typ: f.Type()})
		fs = append(fs, fmt.Sprintf("(%s %s)", sel, fsort))
	}
	delete(b.inProg, name)
	if len(fs) == 0 {
		fs = append(fs, fmt.Sprintf("(%s.dummy Int)", name))
		info.fields = append(info.fields, fieldInfo{name: "_dummy", sel: name + ".dummy", sort: "Int", typ: types.Typ[types.Int]})
	}
	b.declared["sort:"+name] = true
	b.structs[name] = info
	b.lines = append(b.lines, fmt.Sprintf("(declare-datatypes ((%s 0)) (((%s %s))))", name, info.ctor, strings.Join(fs, " ")))
	return name
}

// fieldSel returns selector and sort for field `name` of struct type t.
func (b *SMT) fieldOf(t types.Type, name string) (*structInfo, *fieldInfo, bool) {
	s := b.SortOf(t)
	info := b.structs[s]
	if info == nil {
		return nil, nil, false
	}
	i, ok := info.byName[name]
	if !ok {
		return info, nil, false
	}
	return info, &info.fields[i], true
}

// updateField builds a struct term equal to x with field idx replaced by v.
func (info *structInfo) update(x string, idx int, v string) string {
	args := make([]string, len(info.fields))
	for i, f := range info.fields {
		if i == idx {
			args[i] = v
		} else {
			args[i] = "(" + f.sel + " " + x + ")"
		}
	}
	return "(" + info.ctor + " " + strings.Join(args, " ") + ")"
}

// Tag of a concrete type (for interface values).
func (b *SMT) Tag(t types.Type) string {
	k := typeQual(t)
	if _, ok := b.tags[k]; !ok {
		b.tags[k] = len(b.tags) + 1
	}
	return strconv.Itoa(b.tags[k])
}

// Box/unbox for non-pointer concrete types carried in interfaces.
func (b *SMT) Box(t types.Type, v string) string {
	s := b.SortOf(t)
	if _, isPtr := t.Underlying().(*types.Pointer); isPtr {
		return v
	}
	if s == "Int" {
		return v
	}
	fn := "box_" + sanitize(s)
	un := "unbox_" + sanitize(s)
	b.DeclFun(fn, []string{s}, "Int")
	b.DeclFun(un, []string{"Int"}, s)
	return b.axiom(fn, s, v, func(v string) string { return eq(app(un, app(fn, v)), v) })
}

func (b *SMT) Unbox(t types.Type, pl string) string {
	s := b.SortOf(t)
	if _, isPtr := t.Underlying().(*types.Pointer); isPtr {
		return pl
	}
	if s == "Int" {
		return pl
	}
	fn := "box_" + sanitize(s)
	un := "unbox_" + sanitize(s)
	b.DeclFun(fn, []string{s}, "Int")
	b.DeclFun(un, []string{"Int"}, s)
	return app(un, pl)
}

// Sentinel error constant for a package-level error variable.
func (b *SMT) Sentinel(pkgPath, name string) string {
	c := "errS_" + sanitize(shortPkg(pkgPath)) + "_" + name
	if !b.sentinels[c] {
		b.sentinels[c] = true
		b.lines = append(b.lines, fmt.Sprintf("(declare-const %s Int)", c))
		// each sentinel is non-nil and is its own root; roots of distinct sentinels are distinct
		b.Assert(fmt.Sprintf("(and (> %s 0) (= (err_root %s) %s) (is_sentinel %s))", c, c, c, c))
		if len(b.sentinels) > 1 {
			var all []string
			for k := range b.sentinels {
				all = append(all, k)
			}
			sort.Strings(all)
			b.Assert("(distinct " + strings.Join(all, " ") + ")")
		}
	}
	return c
}

// Ground axioms for library functions, instantiated once per distinct argument term. When the argument
// mentions a bound variable (inside a quantifier of a contract) the axiom is emitted once in quantified
// form with the application as trigger.
func (b *SMT) axiom(fn, argSort, x string, ax func(x string) string) string {
	t := app(fn, x)
	if strings.Contains(x, "qv!") {
		k := "forall:" + fn
		if !b.inst[k] {
			b.inst[k] = true
			b.Assert("(forall ((ax!x " + argSort + ")) (! " + ax("ax!x") + " :pattern ((" + fn + " ax!x))))")
		}
		return t
	}
	if !b.inst[t] {
		b.inst[t] = true
		b.Assert(ax(x))
	}
	return t
}

func (b *SMT) Be64(x string) string {
	return b.axiom("be64", "Int", x, func(x string) string {
		t := app("be64", x)
		return and(eq(app("str.len", t), "8"), implies(and("(<= 0 "+x+")", "(< "+x+" "+two64+")"), eq(app("unbe64", t), x)))
	})
}

func (b *SMT) UnBe64(s string) string {
	return b.axiom("unbe64", "String", s, func(s string) string {
		t := app("unbe64", s)
		return and("(<= 0 "+t+")", "(< "+t+" "+two64+")", implies(eq(app("str.len", s), "8"), eq(app("be64", t), s)))
	})
}

func (b *SMT) Hash(fn, x string) string {
	return b.axiom(fn, "String", x, func(x string) string {
		t := app(fn, x)
		return and(eq(app("str.len", t), "32"), eq(app("un"+fn, t), x))
	})
}

var digitsRe = `(re.+ (re.range "0" "9"))`

func (b *SMT) Dec(x string) string {
	if x != "" && strings.Trim(x, "0123456789") == "" && (len(x) == 1 || x[0] != '0') {
		return smtString(x) // decimal rendering of a literal
	}
	return b.axiom("dec", "Int", x, func(x string) string {
		t := app("dec", x)
		// default facts: inverse, and free of the two separators that matter for key/identifier layouts.
		// The digit-class and length facts make string goals much harder (length case splits), so they are
		// only added where a contract or lemma asks for them (`decfull`).
		facts := []string{eq(app("undec", t), x), app("isdec", t), "(not (str.contains " + t + " \"/\"))", "(not (str.contains " + t + " \"-\"))"}
		if b.DecFull {
			facts = append(facts, "(str.in_re "+t+" "+digitsRe+")", "(<= 1 (str.len "+t+"))", implies("(< "+x+" "+two64+")", "(<= (str.len "+t+") 20)"))
		}
		return implies("(>= "+x+" 0)", and(facts...))
	})
}
