package main

import (
	"go/ast"
	"go/token"
	"go/types"

	"golang.org/x/tools/go/ssa"
)

// globalFuncAlias: for `var X = pkg.F` (a package-level variable initialised with a function) returns F.
func (w *World) globalFuncAlias(pkgPath, name string) *ssa.Function {
	p := w.ByPath[pkgPath]
	if p == nil {
		return nil
	}
	for _, f := range p.Syntax {
		for _, d := range f.Decls {
			gd, ok := d.(*ast.GenDecl)
			if !ok || gd.Tok != token.VAR {
				continue
			}
			for _, sp := range gd.Specs {
				vs := sp.(*ast.ValueSpec)
				for i, n := range vs.Names {
					if n.Name != name || i >= len(vs.Values) {
						continue
					}
					var id *ast.Ident
					switch e := vs.Values[i].(type) {
					case *ast.Ident:
						id = e
					case *ast.SelectorExpr:
						id = e.Sel
					}
					if id == nil {
						return nil
					}
					fn, ok := p.TypesInfo.Uses[id].(*types.Func)
					if !ok {
						return nil
					}
					if sig, ok := fn.Type().(*types.Signature); !ok || sig.Recv() != nil {
						return nil // a method value (e.g. regexp.MustCompile(..).MatchString) is not a plain alias
					}
					return w.Prog.FuncValue(fn)
				}
			}
		}
	}
	return nil
}
