package main

import (
	"fmt"
	"go/ast"
	"go/token"
	"go/types"
	"os"
	"sort"
	"strings"
	"time"

	"golang.org/x/tools/go/packages"
	"golang.org/x/tools/go/ssa"
	"golang.org/x/tools/go/ssa/ssautil"
)

const modPath = "github.com/cosmos/ibc-go/v11"

// World is everything loaded from the current working tree of /repo.
type World struct {
	Fset   *token.FileSet
	Pkgs   []*packages.Package
	Prog   *ssa.Program
	SPkgs  map[string]*ssa.Package // by package path
	ByPath map[string]*packages.Package
	LoadS  float64
	// all functions incl. methods, by qualified name
	Funcs map[string]*ssa.Function
	// contract files parsed
	Contracts *ContractSet
}

func repoDir() string {
	if d := os.Getenv("VERIF_REPO"); d != "" {
		return d
	}
	return "/repo"
}

// LoadWorld loads ./modules/... (and optionally the 08-wasm module) with the verif tag.
func LoadWorld(dir string, patterns []string, overlay map[string][]byte) (*World, error) {
	t0 := time.Now()
	cfg := &packages.Config{
		Mode: packages.NeedName | packages.NeedFiles | packages.NeedCompiledGoFiles | packages.NeedImports |
			packages.NeedTypes | packages.NeedTypesSizes | packages.NeedSyntax | packages.NeedTypesInfo | packages.NeedModule,
		Dir:        dir,
		BuildFlags: []string{"-tags=verif"},
		Overlay:    overlay,
		Env:        append(os.Environ(), "PATH=/opt/veriftools/go1.26.8/bin:"+os.Getenv("PATH"), "GOFLAGS=-mod=mod", "GOPROXY=off", "GOSUMDB=off", "GOTOOLCHAIN=local"),
	}
	pkgs, err := packages.Load(cfg, patterns...)
	if err != nil {
		return nil, err
	}
	var errs []string
	for _, p := range pkgs {
		for _, e := range p.Errors {
			errs = append(errs, p.PkgPath+": "+e.Error())
		}
	}
	if len(errs) > 0 {
		return nil, fmt.Errorf("load errors:\n%s", strings.Join(errs, "\n"))
	}
	prog, spkgs := ssautil.Packages(pkgs, ssa.InstantiateGenerics|ssa.GlobalDebug)
	prog.Build()
	w := &World{Fset: pkgs[0].Fset, Pkgs: pkgs, Prog: prog, SPkgs: map[string]*ssa.Package{}, ByPath: map[string]*packages.Package{}, Funcs: map[string]*ssa.Function{}}
	for i, p := range pkgs {
		w.ByPath[p.PkgPath] = p
		if spkgs[i] != nil {
			w.SPkgs[p.PkgPath] = spkgs[i]
		}
	}
	for fn := range ssautil.AllFunctions(prog) {
		if fn.Pkg == nil || fn.Synthetic != "" && fn.Blocks == nil {
			continue
		}
		if fn.Parent() != nil {
			continue
		}
		w.Funcs[QualName(fn)] = fn
	}
	w.LoadS = time.Since(t0).Seconds()
	return w, nil
}

// shortPkg turns a full package path into the short form used in qualified names:
// the path relative to the module root ("modules/core/04-channel/keeper").
func shortPkg(path string) string {
	p := strings.TrimPrefix(path, modPath+"/")
	p = strings.TrimPrefix(p, "github.com/cosmos/ibc-go/modules/light-clients/08-wasm/v11")
	p = strings.TrimPrefix(p, "/")
	if p == "" {
		return "08-wasm"
	}
	return p
}

// QualName: "<shortpkg>.Func" or "<shortpkg>.(*T).M" / "<shortpkg>.(T).M"
func QualName(fn *ssa.Function) string {
	pkg := ""
	if fn.Pkg != nil {
		pkg = shortPkg(fn.Pkg.Pkg.Path())
	} else if fn.Object() != nil && fn.Object().Pkg() != nil {
		pkg = shortPkg(fn.Object().Pkg().Path())
	}
	if recv := fn.Signature.Recv(); recv != nil {
		t := recv.Type()
		if pt, ok := t.(*types.Pointer); ok {
			if n, ok := pt.Elem().(*types.Named); ok {
				return pkg + ".(*" + n.Obj().Name() + ")." + fn.Name()
			}
		}
		if n, ok := t.(*types.Named); ok {
			return pkg + ".(" + n.Obj().Name() + ")." + fn.Name()
		}
	}
	return pkg + "." + fn.Name()
}

// FindFunc resolves a qualified name, allowing a unique suffix match on the package part.
func (w *World) FindFunc(q string) (*ssa.Function, error) {
	if f, ok := w.Funcs[q]; ok {
		return f, nil
	}
	var hits []string
	for k := range w.Funcs {
		if strings.HasSuffix(k, "/"+q) {
			hits = append(hits, k)
		}
	}
	sort.Strings(hits)
	if len(hits) == 1 {
		return w.Funcs[hits[0]], nil
	}
	if len(hits) == 0 {
		return nil, fmt.Errorf("function %q not found", q)
	}
	return nil, fmt.Errorf("function %q ambiguous: %v", q, hits)
}

// importsOf returns short import name -> package path for the package containing fn
// (union over all files of the package; explicit names win).
func (w *World) importsOf(pkgPath string) map[string]string {
	out := map[string]string{}
	p := w.ByPath[pkgPath]
	if p == nil {
		return out
	}
	for _, f := range p.Syntax {
		for _, is := range f.Imports {
			path := strings.Trim(is.Path.Value, "\"")
			name := ""
			if is.Name != nil {
				name = is.Name.Name
			} else if ip := p.Imports[path]; ip != nil {
				name = ip.Name
			} else {
				name = path[strings.LastIndex(path, "/")+1:]
			}
			if name == "_" || name == "." {
				continue
			}
			out[name] = path
		}
	}
	for n, p := range extraImports[pkgPath] {
		out[n] = p
	}
	return out
}

// typesPkg finds the *types.Package for a path among loaded packages and their imports.
func (w *World) typesPkg(path string) *types.Package {
	if p := w.ByPath[path]; p != nil {
		return p.Types
	}
	for _, p := range w.Pkgs {
		if ip := p.Imports[path]; ip != nil && ip.Types != nil {
			return ip.Types
		}
	}
	return nil
}

// declOf returns the *ast.FuncDecl of a function, if it has source.
func declOf(fn *ssa.Function) *ast.FuncDecl {
	if d, ok := fn.Syntax().(*ast.FuncDecl); ok {
		return d
	}
	return nil
}

func posStr(w *World, p token.Pos) string {
	if !p.IsValid() {
		return "?"
	}
	ps := w.Fset.Position(p)
	return fmt.Sprintf("%s:%d", strings.TrimPrefix(ps.Filename, repoDir()+"/"), ps.Line)
}
