package main

import (
	"context"
	"fmt"
	"os"
	"os/exec"
	"path/filepath"
	"strings"
	"sync"
	"time"
)

type SolveResult struct {
	Status string // unsat, sat, unknown
	Solver string
	Ms     int64
	Model  string
	Detail string
	Bytes  int
}

type solverSpec struct {
	name string
	args func(file string, timeoutS int) []string
}

var solvers = []solverSpec{
	{"z3-new", func(f string, t int) []string { return []string{"z3-new", "-smt2", fmt.Sprintf("-T:%d", t), f} }},
	{"cvc5", func(f string, t int) []string {
		return []string{"cvc5", "--strings-exp", "--lang=smt2", fmt.Sprintf("--tlimit=%d", t*1000), f}
	}},
	{"z3", func(f string, t int) []string { return []string{"z3", "-smt2", fmt.Sprintf("-T:%d", t), f} }},
	// a second cvc5 configuration: with the internal decision heuristic it decides several string goals
	// mixing word equations with uninterpreted functions (dec) that the default configuration does not
	{"cvc5-di", func(f string, t int) []string {
		return []string{"cvc5", "--strings-exp", "--decision=internal", "--lang=smt2", fmt.Sprintf("--tlimit=%d", t*1000), f}
	}},
}

func workDir() string {
	d := os.Getenv("VERIF_WORK")
	if d == "" {
		d = filepath.Join(os.TempDir(), fmt.Sprintf("govc-%d", os.Getpid()))
	}
	os.MkdirAll(d, 0o755)
	return d
}

func runSolver(ctx context.Context, sp solverSpec, file string, timeoutS int) (string, string) {
	a := sp.args(file, timeoutS)
	cmd := exec.CommandContext(ctx, a[0], a[1:]...)
	out, _ := cmd.CombinedOutput()
	s := strings.TrimSpace(string(out))
	first := s
	if i := strings.IndexByte(s, '\n'); i >= 0 {
		first = strings.TrimSpace(s[:i])
	}
	// solvers may print warnings before the answer: take the first line that is an answer
	for _, l := range strings.Split(s, "\n") {
		l = strings.TrimSpace(l)
		if l == "sat" || l == "unsat" || l == "unknown" || l == "timeout" {
			first = l
			break
		}
		if strings.HasPrefix(l, "(error") {
			first = l
			break
		}
	}
	return first, s
}

// Solve races the solvers on one script.
func Solve(name, script string, timeoutS int, wantModel []ModelVar) SolveResult {
	dir := workDir()
	file := filepath.Join(dir, sanitize(name)+".smt2")
	if len(file) > 200 {
		file = filepath.Join(dir, fmt.Sprintf("o%x.smt2", hashStr(name)))
	}
	os.WriteFile(file, []byte(script), 0o644)
	ctx, cancel := context.WithTimeout(context.Background(), time.Duration(timeoutS+2)*time.Second)
	defer cancel()
	type r struct {
		solver, first, all string
		ms             int64
	}
	ch := make(chan r, len(solvers))
	t0 := time.Now()
	for _, sp := range solvers {
		sp := sp
		go func() {
			f, all := runSolver(ctx, sp, file, timeoutS)
			ch <- r{sp.name, f, all, time.Since(t0).Milliseconds()}
		}()
	}
	res := SolveResult{Status: "unknown", Bytes: len(script)}
	var details []string
	for i := 0; i < len(solvers); i++ {
		x := <-ch
		if x.first == "unsat" || x.first == "sat" {
			res.Status, res.Solver, res.Ms = x.first, x.solver, x.ms
			cancel()
			break
		}
		d := x.first
		if len(d) > 200 {
			d = d[:200]
		}
		details = append(details, x.solver+": "+d)
	}
	if res.Status == "unknown" {
		res.Ms = time.Since(t0).Milliseconds()
		res.Detail = strings.Join(details, " | ")
	}
	if res.Status == "sat" && len(wantModel) > 0 {
		var terms []string
		for _, mv := range wantModel {
			terms = append(terms, mv.Term)
		}
		mfile := strings.TrimSuffix(file, ".smt2") + ".model.smt2"
		os.WriteFile(mfile, []byte(script+"(get-value ("+strings.Join(terms, " ")+"))\n"), 0o644)
		for _, sp := range solvers {
			if sp.name == res.Solver {
				c2, cancel2 := context.WithTimeout(context.Background(), time.Duration(timeoutS+2)*time.Second)
				_, all := runSolver(c2, sp, mfile, timeoutS)
				cancel2()
				res.Model = all
			}
		}
	}
	return res
}

func hashStr(s string) uint64 {
	var h uint64 = 1469598103934665603
	for i := 0; i < len(s); i++ {
		h ^= uint64(s[i])
		h *= 1099511628211
	}
	return h
}

// SolveAll discharges obligations in parallel.
func SolveAll(obls []*Obl, timeoutS int, par int) map[string]SolveResult {
	out := map[string]SolveResult{}
	var mu sync.Mutex
	var wg sync.WaitGroup
	sem := make(chan struct{}, par)
	for _, o := range obls {
		o := o
		wg.Add(1)
		sem <- struct{}{}
		go func() {
			defer wg.Done()
			defer func() { <-sem }()
			var mv []ModelVar
			if o.Expect != "sat" {
				mv = o.ModelVars
			}
			to := timeoutS
			if o.Expect == "sat" && to > 6 {
				to = 6 // reachability/vacuity covers: "unknown" is tolerated, so do not wait long
			}
			r := Solve(o.Name, o.Script, to, mv)
			mu.Lock()
			out[o.Name] = r
			mu.Unlock()
		}()
	}
	wg.Wait()
	// second pass: a proof obligation that no solver decided in time is tried again, few at a time and with
	// three times the timeout, before it is reported: on a loaded machine (24 solver processes racing on the
	// first pass) wall-clock timeouts are otherwise mistaken for failed proofs. At most maxRetry obligations
	// are retried, so a broken tree with many undecided obligations does not multiply the run time.
	const maxRetry = 8
	var again []*Obl
	for _, o := range obls {
		if r := out[o.Name]; o.Expect != "sat" && r.Status == "unknown" && !strings.Contains(r.Detail, "(error") && len(again) < maxRetry {
			again = append(again, o)
		}
	}
	sem2 := make(chan struct{}, 2)
	for _, o := range again {
		o := o
		wg.Add(1)
		sem2 <- struct{}{}
		go func() {
			defer wg.Done()
			defer func() { <-sem2 }()
			r := Solve(o.Name, o.Script, 3*timeoutS, o.ModelVars)
			mu.Lock()
			first := out[o.Name]
			r.Ms += first.Ms
			if r.Status == "unknown" {
				r.Detail = "second pass (" + fmt.Sprint(3*timeoutS) + " s): " + r.Detail
			}
			out[o.Name] = r
			mu.Unlock()
		}()
	}
	wg.Wait()
	// consistency probe for cvc5 answers: cvc5 1.0.3 has answered "unsat" on a satisfiable set of assumptions
	// (wip/cvc5_wrong_unsat_min.smt2.txt). For every obligation it discharged, the assumptions alone (the script
	// without its final goal) are given back to cvc5: if it calls those unsatisfiable too, the discharge is
	// withdrawn (the obligation counts as undecided). Bases are shared by the obligations of a function, so this
	// costs one extra query per function.
	baseRes := map[uint64]string{}
	var bmu sync.Mutex
	sem3 := make(chan struct{}, 4)
	for _, o := range obls {
		r := out[o.Name]
		if o.Expect == "sat" || r.Status != "unsat" || !strings.HasPrefix(r.Solver, "cvc5") {
			continue
		}
		i := strings.LastIndex(o.Script, "(assert ")
		if i < 0 {
			continue
		}
		base := o.Script[:i] + "(check-sat)\n"
		h := hashStr(base)
		o := o
		wg.Add(1)
		sem3 <- struct{}{}
		go func() {
			defer wg.Done()
			defer func() { <-sem3 }()
			bmu.Lock()
			ans, seen := baseRes[h]
			bmu.Unlock()
			if !seen {
				file := filepath.Join(workDir(), fmt.Sprintf("base%x.smt2", h))
				os.WriteFile(file, []byte(base), 0o644)
				ctx, cancel := context.WithTimeout(context.Background(), 7*time.Second)
				ans, _ = runSolver(ctx, solvers[1], file, 5)
				cancel()
				bmu.Lock()
				baseRes[h] = ans
				bmu.Unlock()
			}
			if ans == "unsat" {
				mu.Lock()
				rr := out[o.Name]
				rr.Status = "unknown"
				rr.Detail = "withdrawn: cvc5 also reports the assumptions without the goal unsatisfiable (inconsistent assumptions or a solver defect)"
				out[o.Name] = rr
				mu.Unlock()
			}
		}()
	}
	wg.Wait()
	return out
}
