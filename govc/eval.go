package main

import (
	"fmt"
	"go/constant"
	"go/types"
	"strconv"
	"strings"

	"golang.org/x/tools/go/ssa"
)

// Env: evaluation environment for contract expressions.
type Env struct {
	fc      *FnCtx
	vars    map[string]Val
	cur     *State
	old     *State
	pkgPath string
	lookup  func(string) (Val, bool)
	inOld   bool
	recv    *Val
	errs    []string
	patterns []string
	triggers []string // explicit multi-patterns (trigger(...)) of the quantifier being evaluated
}

func (e *Env) state() *State {
	if e.inOld && e.old != nil {
		return e.old
	}
	return e.cur
}

func (e *Env) fail(f string, a ...any) Val {
	msg := fmt.Sprintf(f, a...)
	e.errs = append(e.errs, msg)
	e.fc.unsupported("contract: %s", msg)
	return Val{S: "Bool", T: "false"}
}

// contractEnv builds the environment for a function's contract.
// fn may be nil (interface contract): then sig/param names come from c.
func (fc *FnCtx) contractEnv(fn *ssa.Function, args []Val, results []Val, old, cur *State) *Env {
	env := &Env{fc: fc, vars: map[string]Val{}, cur: cur, old: old}
	if fn != nil {
		env.pkgPath = fnPkgPath(fn)
		for i, p := range fn.Params {
			if i < len(args) {
				env.vars[p.Name()] = args[i]
			}
		}
		if len(fn.Params) == 0 && len(fn.Blocks) == 0 {
			// body-less function of a dependency (loaded from export data): names come from the signature
			off := 0
			if rv := fn.Signature.Recv(); rv != nil && len(args) > 0 {
				if rv.Name() != "" && rv.Name() != "_" {
					env.vars[rv.Name()] = args[0]
				}
				env.vars["self"] = args[0]
				off = 1
			}
			ps := fn.Signature.Params()
			for i := 0; i < ps.Len() && i+off < len(args); i++ {
				if n := ps.At(i).Name(); n != "" && n != "_" {
					env.vars[n] = args[i+off]
				}
			}
		}
		if fn.Signature.Recv() != nil && len(args) > 0 {
			r := args[0]
			env.recv = &r
		}
		fc.bindResults(env, fn.Signature, results)
	}
	return env
}

func (fc *FnCtx) bindResults(env *Env, sig *types.Signature, results []Val) {
	if results == nil {
		return
	}
	res := sig.Results()
	for i := 0; i < res.Len() && i < len(results); i++ {
		r := res.At(i)
		if r.Name() != "" && r.Name() != "_" {
			env.vars[r.Name()] = results[i]
		}
		env.vars["result"+strconv.Itoa(i)] = results[i]
		if isErrorType(r.Type()) && i == res.Len()-1 {
			env.vars["err"] = results[i]
		}
	}
	if len(results) >= 1 {
		env.vars["result"] = results[0]
	}
}

func (fc *FnCtx) ifaceEnv(c *Contract, sig *types.Signature, args []Val, results []Val, old, cur *State) *Env {
	env := &Env{fc: fc, vars: map[string]Val{}, cur: cur, old: old, pkgPath: c.PkgPath}
	if len(args) > 0 {
		env.vars["self"] = args[0]
	}
	for i := 0; i < sig.Params().Len() && i+1 < len(args); i++ {
		n := sig.Params().At(i).Name()
		if n != "" && n != "_" {
			env.vars[n] = args[i+1]
		}
		env.vars["arg"+strconv.Itoa(i)] = args[i+1]
	}
	fc.bindResults(env, sig, results)
	return env
}

func (fc *FnCtx) evalBool(env *Env, e Expr) string {
	v := env.eval(e)
	if v.S != "Bool" {
		env.fail("expression %s is not boolean (sort %s)", e.String(), v.S)
		return "false"
	}
	return v.T
}

func boolVal(t string) Val { return Val{S: "Bool", T: t, Typ: types.Typ[types.Bool]} }
func intVal(t string) Val  { return Val{S: "Int", T: t} }
func strVal(t string) Val  { return Val{S: "String", T: t, Typ: types.Typ[types.String]} }

// asString coerces Bytes/String to a String term.
func asString(v Val) (string, bool) {
	switch v.S {
	case "String":
		return v.T, true
	case "Bytes":
		return "(b_s " + v.T + ")", true
	}
	return "", false
}

func (e *Env) eval(x Expr) Val {
	fc := e.fc
	switch n := x.(type) {
	case *ELit:
		switch n.Kind {
		case "int":
			v, err := strconv.ParseInt(n.Val, 0, 64)
			if err != nil {
				u, err2 := strconv.ParseUint(n.Val, 0, 64)
				if err2 != nil {
					return intVal(n.Val)
				}
				return intVal(strconv.FormatUint(u, 10))
			}
			return intVal(strconv.FormatInt(v, 10))
		case "string":
			s, err := strconv.Unquote(n.Val)
			if err != nil {
				return e.fail("bad string literal %s", n.Val)
			}
			return strVal(smtString(s))
		case "char":
			s, err := strconv.Unquote(n.Val)
			if err != nil || len(s) == 0 {
				return e.fail("bad char literal %s", n.Val)
			}
			return intVal(strconv.Itoa(int(s[0])))
		case "bool":
			return boolVal(n.Val)
		case "nil":
			return Val{S: "Nil", T: "nil"}
		}
	case *EIdent:
		return e.ident(n.Name)
	case *ESel:
		return e.sel(n)
	case *ECall:
		return e.callExpr(n)
	case *EIndex:
		b := e.eval(n.X)
		i := e.eval(n.I)
		switch {
		case b.S == "String":
			return intVal("(str.to_code (str.at " + b.T + " " + i.T + "))")
		case b.S == "Bytes":
			return intVal("(str.to_code (str.at (b_s " + b.T + ") " + i.T + "))")
		case strings.HasPrefix(b.S, "(Slice"):
			var et types.Type
			if b.Typ != nil {
				switch u := b.Typ.Underlying().(type) {
				case *types.Slice:
					et = u.Elem()
				case *types.Array:
					et = u.Elem()
				}
			}
			es := strings.TrimSuffix(strings.TrimPrefix(b.S, "(Slice "), ")")
			sel := "(select (s_arr " + b.T + ") " + i.T + ")"
			if strings.HasPrefix(i.T, "qv!") && !strings.Contains(b.T, "qv!") {
				e.patterns = append(e.patterns, sel) // trigger candidate for the enclosing quantifier
			}
			return Val{S: es, T: sel, Typ: et}
		case strings.HasPrefix(b.S, "(Array"):
			asel := "(select " + b.T + " " + i.T + ")"
			if strings.HasPrefix(i.T, "qv!") && !strings.Contains(b.T, "qv!") {
				e.patterns = append(e.patterns, asel)
			}
			return Val{S: arrayElemSort(b.S), T: asel}
		case b.Typ != nil:
			if mt, ok := b.Typ.Underlying().(*types.Map); ok {
				ms := fc.mapSort(mt)
				cur := "(select " + fc.heapOf(e.state(), ms) + " " + b.T + ")"
				return fc.mkVal(mt.Elem(), "(select (m_val "+cur+") "+i.T+")")
			}
		}
		return e.fail("cannot index %s", n.X.String())
	case *ESlice:
		b := e.eval(n.X)
		s, ok := asString(b)
		if ok {
			lo, hi := "0", "(str.len "+s+")"
			if n.Lo != nil {
				lo = e.eval(n.Lo).T
			}
			if n.Hi != nil {
				hi = e.eval(n.Hi).T
			}
			return strVal("(str.substr " + s + " " + lo + " (- " + hi + " " + lo + "))")
		}
		if strings.HasPrefix(b.S, "(Slice ") {
			// x[lo:hi] of a non-byte slice, built as the executor builds it (a fresh array shifted by lo)
			es := strings.TrimSuffix(strings.TrimPrefix(b.S, "(Slice "), ")")
			lo, hi := "0", "(s_len "+b.T+")"
			if n.Lo != nil {
				lo = e.eval(n.Lo).T
			}
			if n.Hi != nil {
				hi = e.eval(n.Hi).T
			}
			if lo == "0" {
				return Val{S: b.S, T: "(mkS false " + hi + " (s_arr " + b.T + "))", Typ: b.Typ}
			}
			if strings.Contains(b.T+lo+hi, "qv!") {
				return e.fail("cannot slice %s under a quantifier", n.X.String())
			}
			na := fc.B.Fresh("subarr", "(Array Int "+es+")")
			fc.B.Assert("(forall ((i Int)) (! (= (select " + na + " i) (select (s_arr " + b.T + ") (+ i " + lo + "))) :pattern ((select " + na + " i))))")
			return Val{S: b.S, T: "(mkS false (- " + hi + " " + lo + ") " + na + ")", Typ: b.Typ}
		}
		return e.fail("cannot slice %s", n.X.String())
	case *EUnary:
		if n.Op == "*" {
			return e.callExpr(&ECall{Fun: &EIdent{Name: "deref"}, Args: []Expr{n.X}})
		}
		v := e.eval(n.X)
		if n.Op == "!" {
			return boolVal(not(v.T))
		}
		return intVal("(- " + v.T + ")")
	case *EBinary:
		return e.binary(n)
	case *ECompLit:
		srt, typ := e.typeByName(n.Type)
		if typ == nil {
			return e.fail("composite literal of unknown type %s", n.Type)
		}
		info := fc.B.structs[srt]
		if info == nil {
			return e.fail("composite literal of non-struct type %s", n.Type)
		}
		var parts []string
		for _, f := range info.fields {
			val := fc.zero(f.typ)
			for i, nm := range n.Names {
				if nm == f.name {
					v := e.coerce(e.eval(n.Values[i]), f.typ)
					val = v.T
				}
			}
			parts = append(parts, val)
		}
		for _, nm := range n.Names {
			if _, _, ok := fc.B.fieldOf(typ, nm); !ok {
				return e.fail("no field %s in %s", nm, n.Type)
			}
		}
		return fc.mkVal(typ, "("+info.ctor+" "+strings.Join(parts, " ")+")")
	case *EIte:
		c := e.eval(n.C)
		a := e.eval(n.A)
		b := e.eval(n.B)
		a, b = e.unify(a, b)
		r := a
		r.T = ite(c.T, a.T, b.T)
		return r
	case *EQuant:
		saved := map[string]*Val{}
		var binds []string
		for _, qv := range n.Vars {
			if old, ok := e.vars[qv.Name]; ok {
				o := old
				saved[qv.Name] = &o
			} else {
				saved[qv.Name] = nil
			}
			srt, typ := e.typeByName(qv.Type)
			nm := "qv!" + qv.Name + "!" + strconv.Itoa(fc.B.n)
			fc.B.n++
			e.vars[qv.Name] = Val{S: srt, T: nm, Typ: typ}
			binds = append(binds, "("+nm+" "+srt+")")
		}
		savedPats := e.patterns
		e.patterns = nil
		savedTrig := e.triggers
		e.triggers = nil
		body := e.eval(n.Body)
		pats := e.patterns
		e.patterns = savedPats
		trigs := e.triggers
		e.triggers = savedTrig
		if len(trigs) > 0 {
			ann := ""
			for _, t := range trigs {
				ann += " :pattern (" + t + ")"
			}
			body.T = "(! " + body.T + ann + ")"
		} else if len(n.Vars) == 1 && len(pats) > 0 {
			seen := map[string]bool{}
			ann := ""
			for _, p := range pats {
				if !seen[p] {
					seen[p] = true
					ann += " :pattern (" + p + ")"
				}
			}
			body.T = "(! " + body.T + ann + ")"
		}
		for k, v := range saved {
			if v == nil {
				delete(e.vars, k)
			} else {
				e.vars[k] = *v
			}
		}
		q := "exists"
		if n.Forall {
			q = "forall"
		}
		return boolVal("(" + q + " (" + strings.Join(binds, " ") + ") " + body.T + ")")
	}
	return e.fail("unsupported expression %s", x.String())
}

func arrayElemSort(s string) string {
	// "(Array K V)" -> V  (K is a simple sort here)
	inner := strings.TrimSuffix(strings.TrimPrefix(s, "(Array "), ")")
	d := 0
	for i := 0; i < len(inner); i++ {
		switch inner[i] {
		case '(':
			d++
		case ')':
			d--
		case ' ':
			if d == 0 {
				return inner[i+1:]
			}
		}
	}
	return inner
}

func (e *Env) typeByName(t string) (string, types.Type) {
	switch t {
	case "int", "uint64", "int64", "uint32", "byte":
		return "Int", nil
	case "bool":
		return "Bool", nil
	case "string":
		return "String", types.Typ[types.String]
	case "bytes":
		return "Bytes", types.NewSlice(types.Typ[types.Byte])
	case "KV":
		return "KV", nil
	case "World":
		return "WorldS", nil
	case "Ledger":
		return "Ledger", nil
	case "Ctx":
		return "Ctx", nil
	case "error":
		return "Int", types.Universe.Lookup("error").Type()
	case "iface":
		return "Iface", types.NewInterfaceType(nil, nil)
	case "View":
		return "View", nil
	}
	if strings.HasPrefix(t, "*") {
		_, et := e.typeByName(t[1:])
		if et == nil {
			return "Int", nil
		}
		return "Int", types.NewPointer(et)
	}
	if strings.HasPrefix(t, "[]") {
		s, et := e.typeByName(t[2:])
		var tt types.Type
		if et != nil {
			tt = types.NewSlice(et)
		}
		if s == "Int" && t[2:] == "byte" {
			return "Bytes", types.NewSlice(types.Typ[types.Byte])
		}
		return "(Slice " + s + ")", tt
	}
	// pkg.Type or Type in current package
	pk, name := e.pkgPath, t
	if i := strings.Index(t, "."); i >= 0 {
		imp := e.fc.W.importsOf(e.pkgPath)
		if p, ok := imp[t[:i]]; ok {
			pk = p
		}
		name = t[i+1:]
	}
	if tp := e.fc.W.typesPkg(pk); tp != nil {
		if o := tp.Scope().Lookup(name); o != nil {
			return e.fc.B.SortOf(o.Type()), o.Type()
		}
	}
	e.fail("unknown type %s", t)
	return "Int", nil
}

func (e *Env) ident(name string) Val {
	fc := e.fc
	if v, ok := e.vars[name]; ok {
		return v
	}
	if e.lookup != nil {
		if v, ok := e.lookup(name); ok {
			return v
		}
	}
	if m := mapGhostRe.FindStringSubmatch(name); m != nil {
		k, _ := strconv.Atoi(m[2])
		if k >= 1 && k <= len(fc.mapRanges) {
			mr := fc.mapRanges[k-1]
			switch m[1] {
			case "seq":
				return Val{S: "(Array Int " + mr.keySort + ")", T: mr.seq}
			case "n":
				return intVal(mr.n)
			case "pos":
				if t, ok := e.state().ghosts[mr.ghost]; ok {
					return intVal(t)
				}
				return intVal("0")
			}
		}
	}
	if g := fc.W.Contracts.Ghosts[name]; g != nil {
		st := e.state()
		if t, ok := st.ghosts[name]; ok {
			return Val{S: fc.ghostSort(name), T: t}
		}
		init := "ghost0_" + name
		if !fc.B.declared["ghost:"+name] {
			fc.B.declared["ghost:"+name] = true
			fc.B.Raw(fmt.Sprintf("(declare-const %s %s)", init, fc.ghostSort(name)))
		}
		return Val{S: fc.ghostSort(name), T: init}
	}
	// package-level object of the contract's package
	if v, ok := e.pkgObject(e.pkgPath, name); ok {
		return v
	}
	return e.fail("unknown identifier %s", name)
}

func (e *Env) pkgObject(pkgPath, name string) (Val, bool) {
	fc := e.fc
	tp := fc.W.typesPkg(pkgPath)
	if tp == nil {
		return Val{}, false
	}
	o := tp.Scope().Lookup(name)
	if o == nil {
		return Val{}, false
	}
	switch obj := o.(type) {
	case *types.Const:
		switch obj.Val().Kind() {
		case constant.Int:
			return Val{S: "Int", T: intLit(obj.Val().ExactString()), Typ: obj.Type()}, true
		case constant.String:
			return Val{S: "String", T: smtString(constant.StringVal(obj.Val())), Typ: obj.Type()}, true
		case constant.Bool:
			return boolVal(strconv.FormatBool(constant.BoolVal(obj.Val()))), true
		}
	case *types.Var:
		if isErrorType(obj.Type()) || isSentinelErrType(obj.Type()) {
			return Val{S: "Int", T: fc.B.Sentinel(pkgPath, name), Typ: obj.Type()}, true
		}
		// read-only globals with known initialisers
		if v, ok := fc.globalConst(pkgPath, name, obj.Type()); ok {
			return v, true
		}
		if sp := fc.W.SPkgs[pkgPath]; sp != nil {
			if g := sp.Var(name); g != nil {
				return fc.loadGlobal(g, obj.Type()), true
			}
		}
	}
	return Val{}, false
}

func (e *Env) sel(n *ESel) Val {
	fc := e.fc
	// package-qualified?
	if id, ok := n.X.(*EIdent); ok {
		if _, isVar := e.vars[id.Name]; !isVar {
			shadow := false
			if e.lookup != nil {
				if _, ok := e.lookup(id.Name); ok {
					shadow = true
				}
			}
			if !shadow {
				if p, ok := fc.W.importsOf(e.pkgPath)[id.Name]; ok {
					if v, ok := e.pkgObject(p, n.Name); ok {
						return v
					}
					return e.fail("unknown object %s.%s", id.Name, n.Name)
				}
			}
		}
	}
	x := e.eval(n.X)
	return e.field(x, n.Name)
}

func (e *Env) field(x Val, name string) Val {
	fc := e.fc
	if x.Typ == nil {
		return e.fail("field %s of untyped value", name)
	}
	t := types.Unalias(x.Typ)
	if pt, ok := t.Underlying().(*types.Pointer); ok {
		// auto-deref
		if x.PBase == nil {
			x.PBase = pt.Elem()
		}
		x = fc.load(e.state(), x)
		t = pt.Elem()
		x.Typ = t
	}
	st, ok := t.Underlying().(*types.Struct)
	if !ok {
		return e.fail("field %s of non-struct %s", name, t)
	}
	// embedded promotion (one level)
	_, f, ok := fc.B.fieldOf(t, name)
	if !ok {
		for i := 0; i < st.NumFields(); i++ {
			if st.Field(i).Embedded() {
				inner := e.field(x, st.Field(i).Name())
				if _, _, ok2 := fc.B.fieldOf(inner.Typ, name); ok2 {
					return e.field(inner, name)
				}
			}
		}
		return e.fail("no field %s in %s", name, t)
	}
	return fc.mkVal(f.typ, "("+f.sel+" "+x.T+")")
}

func (e *Env) unify(a, b Val) (Val, Val) {
	if a.S == b.S {
		return a, b
	}
	if a.S == "Nil" {
		a = e.nilOf(b)
		return a, b
	}
	if b.S == "Nil" {
		b = e.nilOf(a)
		return a, b
	}
	if a.S == "Bytes" && b.S == "String" {
		return strVal("(b_s " + a.T + ")"), b
	}
	if a.S == "String" && b.S == "Bytes" {
		return a, strVal("(b_s " + b.T + ")")
	}
	return a, b
}

func (e *Env) nilOf(like Val) Val {
	switch {
	case like.S == "Int":
		return Val{S: "Int", T: "0", Typ: like.Typ}
	case like.S == "Iface":
		return Val{S: "Iface", T: "(mkI 0 0)", Typ: like.Typ}
	}
	return Val{S: like.S, T: e.fc.zero(like.Typ), Typ: like.Typ}
}

func (e *Env) binary(n *EBinary) Val {
	switch n.Op {
	case "&&":
		return boolVal(and(e.evalB(n.X), e.evalB(n.Y)))
	case "||":
		return boolVal(or(e.evalB(n.X), e.evalB(n.Y)))
	case "==>":
		return boolVal(implies(e.evalB(n.X), e.evalB(n.Y)))
	case "<==>":
		return boolVal(eq(e.evalB(n.X), e.evalB(n.Y)))
	}
	a, b := e.eval(n.X), e.eval(n.Y)
	switch n.Op {
	case "==", "!=":
		var t string
		switch {
		case b.S == "Nil" || a.S == "Nil":
			o := a
			if a.S == "Nil" {
				o = b
			}
			switch {
			case o.S == "Bytes":
				t = "(b_nil " + o.T + ")"
			case strings.HasPrefix(o.S, "(Slice"):
				t = "(s_nil " + o.T + ")"
			case o.S == "Iface":
				t = "(= (i_tag " + o.T + ") 0)"
			case o.S == "Int":
				t = "(= " + o.T + " 0)"
			default:
				return e.fail("nil comparison on sort %s", o.S)
			}
		case a.S == "Bytes" || b.S == "Bytes":
			as, ok1 := asString(a)
			bs, ok2 := asString(b)
			if !ok1 || !ok2 {
				return e.fail("cannot compare %s and %s", a.S, b.S)
			}
			t = eq(as, bs)
		case strings.HasPrefix(a.S, "(Slice") && a.S == b.S:
			// extensional slice equality
			q := "qv!i!" + strconv.Itoa(e.fc.B.n)
			e.fc.B.n++
			t = fmt.Sprintf("(and (= (s_len %s) (s_len %s)) (forall ((%s Int)) (=> (and (<= 0 %s) (< %s (s_len %s))) (= (select (s_arr %s) %s) (select (s_arr %s) %s)))))", a.T, b.T, q, q, q, a.T, a.T, q, b.T, q)
		default:
			if a.S != b.S {
				return e.fail("sort mismatch in %s: %s vs %s", n.String(), a.S, b.S)
			}
			t = eq(a.T, b.T)
		}
		if n.Op == "!=" {
			t = not(t)
		}
		return boolVal(t)
	case "<", "<=", ">", ">=":
		if a.S == "String" || a.S == "Bytes" {
			as, _ := asString(a)
			bs, _ := asString(b)
			switch n.Op {
			case "<":
				return boolVal("(str.< " + as + " " + bs + ")")
			case "<=":
				return boolVal("(str.<= " + as + " " + bs + ")")
			case ">":
				return boolVal("(str.< " + bs + " " + as + ")")
			default:
				return boolVal("(str.<= " + bs + " " + as + ")")
			}
		}
		return boolVal("(" + n.Op + " " + a.T + " " + b.T + ")")
	case "+":
		if as, ok := asString(a); ok {
			bs, ok2 := asString(b)
			if !ok2 {
				return e.fail("cannot concatenate %s", n.String())
			}
			return strVal("(str.++ " + as + " " + bs + ")")
		}
		return intVal("(+ " + a.T + " " + b.T + ")")
	case "-":
		return intVal("(- " + a.T + " " + b.T + ")")
	case "*":
		return intVal("(* " + a.T + " " + b.T + ")")
	case "/":
		return intVal("(div " + a.T + " " + b.T + ")")
	case "%":
		return intVal("(mod " + a.T + " " + b.T + ")")
	}
	return e.fail("unsupported operator %s", n.Op)
}

func (e *Env) evalB(x Expr) string {
	v := e.eval(x)
	if v.S != "Bool" {
		e.fail("expected boolean: %s", x.String())
		return "false"
	}
	return v.T
}

func (e *Env) world(ctx Val) string {
	br := ""
	switch ctx.S {
	case "Ctx":
		br = "(c_br " + ctx.T + ")"
	case "View":
		br = "(v_br " + ctx.T + ")"
	default:
		e.fail("world() of non-context")
		return "w"
	}
	return "(select " + e.state().worlds + " " + br + ")"
}

func svcID(v Val) string {
	switch v.S {
	case "Iface":
		return "(i_pl " + v.T + ")"
	case "View":
		return "(v_svc " + v.T + ")"
	}
	return v.T
}

func kvHas(kv, k string) string { return "(select (kv_has " + kv + ") " + k + ")" }
func kvGet(kv, k string) string {
	return "(ite (select (kv_has " + kv + ") " + k + ") (select (kv_val " + kv + ") " + k + ") \"\")"
}
func kvSet(kv, k, v string) string {
	return "(mkKV (store (kv_has " + kv + ") " + k + " true) (store (kv_val " + kv + ") " + k + " " + v + "))"
}
func kvDel(kv, k string) string {
	return "(mkKV (store (kv_has " + kv + ") " + k + " false) (store (kv_val " + kv + ") " + k + " \"\"))"
}

func (e *Env) callExpr(n *ECall) Val {
	fc := e.fc
	argv := func(i int) Val { return e.eval(n.Args[i]) }
	str := func(i int) string {
		v := argv(i)
		s, ok := asString(v)
		if !ok {
			e.fail("argument %d of %s must be string/bytes (got %s)", i, n.Fun.String(), v.S)
			return "\"\""
		}
		return s
	}
	if id, ok := n.Fun.(*EIdent); ok {
		switch id.Name {
		case "old":
			saved := e.inOld
			e.inOld = true
			v := e.eval(n.Args[0])
			e.inOld = saved
			return v
		case "len":
			v := argv(0)
			switch {
			case v.S == "String":
				return intVal("(str.len " + v.T + ")")
			case v.S == "Bytes":
				return intVal("(str.len (b_s " + v.T + "))")
			case strings.HasPrefix(v.S, "(Slice"):
				return intVal("(s_len " + v.T + ")")
			}
			return e.fail("len of %s", v.S)
		case "world":
			return Val{S: "WorldS", T: e.world(argv(0))}
		case "kv":
			w := e.world(argv(0))
			return Val{S: "KV", T: "(select (w_kv " + w + ") " + svcID(argv(1)) + ")"}
		case "onlyPrefixChanged":
			// onlyPrefixChanged(w0, w1, p): world w1 differs from w0 at most at keys that start with p (in any
			// module store); bank ledger and auxiliary state are equal
			w0, w1, p := argv(0).T, argv(1).T, str(2)
			return boolVal("(and (= (w_led " + w1 + ") (w_led " + w0 + ")) (= (w_aux " + w1 + ") (w_aux " + w0 + ")) " +
				"(forall ((qs!s Int) (qs!k String)) (! (=> (not (str.prefixof " + p + " qs!k)) (and " +
				"(= (select (kv_has (select (w_kv " + w1 + ") qs!s)) qs!k) (select (kv_has (select (w_kv " + w0 + ") qs!s)) qs!k)) " +
				"(= (select (kv_val (select (w_kv " + w1 + ") qs!s)) qs!k) (select (kv_val (select (w_kv " + w0 + ") qs!s)) qs!k)))) " +
				":pattern ((select (kv_has (select (w_kv " + w1 + ") qs!s)) qs!k)) :pattern ((select (kv_val (select (w_kv " + w1 + ") qs!s)) qs!k)))))")
		case "sameStoresAndLedger":
			// sameStoresAndLedger(w0, w1): every module store and the bank ledger are equal (only auxiliary state,
			// e.g. another module's metadata, may differ)
			w0, w1 := argv(0).T, argv(1).T
			return boolVal("(and (= (w_led " + w1 + ") (w_led " + w0 + ")) (= (w_kv " + w1 + ") (w_kv " + w0 + ")))")
		case "onlyKeyChanged":
			// onlyKeyChanged(w0, w1, k): world w1 differs from w0 at most at key k (of any module store)
			w0, w1, k := argv(0).T, argv(1).T, str(2)
			return boolVal("(and (= (w_led " + w1 + ") (w_led " + w0 + ")) (= (w_aux " + w1 + ") (w_aux " + w0 + ")) " +
				"(forall ((qs!s Int) (qs!k String)) (! (=> (not (= qs!k " + k + ")) (and " +
				"(= (select (kv_has (select (w_kv " + w1 + ") qs!s)) qs!k) (select (kv_has (select (w_kv " + w0 + ") qs!s)) qs!k)) " +
				"(= (select (kv_val (select (w_kv " + w1 + ") qs!s)) qs!k) (select (kv_val (select (w_kv " + w0 + ") qs!s)) qs!k)))) " +
				":pattern ((select (kv_has (select (w_kv " + w1 + ") qs!s)) qs!k)) :pattern ((select (kv_val (select (w_kv " + w1 + ") qs!s)) qs!k)))))")
		case "sigAddr":
			// sigAddr(hash, sig): the address of the public key recovered from (hash, sig) (the term the executor
			// produces for crypto.PubkeyToAddress(*crypto.SigToPub(hash, sig)))
			if tp := fc.W.typesPkg("github.com/ethereum/go-ethereum/crypto"); tp != nil {
				if o, ok := tp.Scope().Lookup("SigToPub").(*types.Func); ok {
					if pt, ok := o.Type().(*types.Signature).Results().At(0).Type().Underlying().(*types.Pointer); ok {
						ks := fc.B.SortOf(pt.Elem())
						fc.B.DeclFun("sig_pubkey", []string{"String", "String"}, ks)
						fc.B.DeclFun("pub_addr", []string{ks}, "String")
						return strVal("(pub_addr (sig_pubkey " + str(0) + " " + str(1) + "))")
					}
				}
			}
			return e.fail("sigAddr: go-ethereum crypto.SigToPub not available")
		case "hexAddr":
			fc.B.DeclFun("hex_to_addr", []string{"String"}, "String")
			return strVal("(hex_to_addr " + str(0) + ")")
		case "addressModule":
			fc.B.DeclFun("address_module", []string{"String", "String"}, "String")
			return strVal("(address_module " + str(0) + " " + str(1) + ")")
		case "joinFrom":
			// joinFrom(a, sep, i): strings.Join(a[i:], sep)
			fc.B.JoinFrom()
			return strVal("(join_from " + argv(0).T + " " + str(1) + " " + argv(2).T + ")")
		case "hexUpper":
			// hexUpper(b): the upper-case hexadecimal rendering of the bytes (cmtbytes.HexBytes.String)
			fc.B.DeclFun("hex_upper", []string{"String"}, "String")
			fc.B.DeclFun("unhex_upper", []string{"String"}, "String")
			t := "(hex_upper " + str(0) + ")"
			fc.B.Assert(and(eq("(unhex_upper "+t+")", str(0)), eq("(str.len "+t+")", "(* 2 (str.len "+str(0)+"))"), not("(str.contains "+t+" \"/\")")))
			return strVal(t)
		case "builderText":
			// builderText(sb): the text accumulated in a strings.Builder
			v := argv(0)
			if _, ok := v.Typ.(*types.Pointer); ok {
				v = fc.load(e.cur, v)
			}
			fc.B.DeclFun("builder_text", []string{v.S}, "String")
			return strVal("(builder_text " + v.T + ")")
		case "trigger":
			// trigger(t1, ..., tn): an explicit multi-pattern for the enclosing quantifier; evaluates to true
			var ts []string
			for i := range n.Args {
				ts = append(ts, argv(i).T)
			}
			e.triggers = append(e.triggers, strings.Join(ts, " "))
			return boolVal("true")
		case "bech32enc":
			fc.B.DeclFun("bech32_enc", []string{"String"}, "String")
			return strVal("(bech32_enc " + str(0) + ")")
		case "kvOf":
			// kvOf(w, svc): the key-value store of service svc in world w
			return Val{S: "KV", T: "(select (w_kv " + argv(0).T + ") " + svcID(argv(1)) + ")"}
		case "store":
			if len(n.Args) == 1 && e.recv != nil {
				w := e.world(argv(0))
				for _, fname := range []string{"storeService", "storeKey", "StoreService"} {
					if _, _, ok := fc.B.fieldOf(derefType(e.recv.Typ), fname); ok {
						f := e.field(*e.recv, fname)
						return Val{S: "KV", T: "(select (w_kv " + w + ") " + svcID(f) + ")"}
					}
				}
			}
			if len(n.Args) == 1 {
				a := argv(0)
				if a.S == "View" {
					return Val{S: "KV", T: "(select (w_kv " + e.world(a) + ") (v_svc " + a.T + "))"}
				}
			}
			return e.fail("store(ctx): receiver has no storeService/storeKey field")
		case "inmap":
			m := argv(0)
			if m.Typ == nil {
				return e.fail("inmap: untyped map")
			}
			mt, ok := m.Typ.Underlying().(*types.Map)
			if !ok {
				return e.fail("inmap: not a map")
			}
			ms := fc.mapSort(mt)
			cur := "(select " + fc.heapOf(e.state(), ms) + " " + m.T + ")"
			k := e.coerce(argv(1), mt.Key())
			return boolVal(and(not(eq(m.T, "0")), "(select (m_dom "+cur+") "+k.T+")"))
		case "box":
			v := argv(0)
			if v.Typ == nil || v.S == "Iface" {
				return e.fail("box: needs a concrete typed value")
			}
			nv := Val{S: "Iface", T: "(mkI " + fc.B.Tag(v.Typ) + " " + fc.B.Box(v.Typ, v.T) + ")"}
			nv.Fn = &FnVal{Special: "dyn", Data: []Val{v}}
			return nv
		case "appendAll":
			// appendAll(a, b): append(a, b...) as the engine models it
			a, b2 := argv(0), argv(1)
			if strings.Contains(a.T, "qv!") || strings.Contains(b2.T, "qv!") {
				fn := "append_" + sanitize(a.S)
				fc.B.DeclFun(fn, []string{a.S, a.S}, a.S)
				return Val{S: a.S, T: "(" + fn + " " + a.T + " " + b2.T + ")", Typ: a.Typ}
			}
			return (&Frame{fc: fc}).appendSlices(a, b2, a.Typ)
		case "appendOne":
			// appendOne(a, x): append(a, x) as the engine models it (same function symbol and argument shape)
			a, v := argv(0), argv(1)
			one := "(mkS false 1 (store ((as const (Array Int " + v.S + ")) " + fc.zero(v.Typ) + ") 0 " + v.T + "))"
			if strings.Contains(a.T, "qv!") || strings.Contains(v.T, "qv!") {
				fn := "append_" + sanitize(a.S)
				fc.B.DeclFun(fn, []string{a.S, a.S}, a.S)
				return Val{S: a.S, T: "(" + fn + " " + a.T + " " + one + ")", Typ: a.Typ}
			}
			return (&Frame{fc: fc}).appendSlices(a, Val{S: a.S, T: one, Typ: a.Typ}, a.Typ)
		case "slice1":
			// one-element slice literal, built exactly as the engine builds call-site argument arrays
			v := argv(0)
			if v.Typ == nil {
				return e.fail("slice1: untyped element")
			}
			return Val{S: "(Slice " + v.S + ")", T: "(mkS false 1 (store ((as const (Array Int " + v.S + ")) " + fc.zero(v.Typ) + ") 0 " + v.T + "))", Typ: types.NewSlice(v.Typ)}
		case "unmarshalAs":
			// unmarshalAs(bz, T): the value of message type T that the codec decodes from bz (the term the
			// executor produces for cdc.Unmarshal(bz, &x))
			srt, typ := e.typeByName(n.Args[1].String())
			if typ == nil {
				return e.fail("unmarshalAs: unknown type %s", n.Args[1].String())
			}
			fc.B.DeclFun("marshal_"+sanitize(srt), []string{srt}, "String")
			fc.B.DeclFun("unmarshal_"+sanitize(srt), []string{"String"}, srt)
			return fc.mkVal(typ, "(unmarshal_"+sanitize(srt)+" "+str(0)+")")
		case "marshalOf":
			v := argv(0)
			fn := "marshal_" + sanitize(v.S)
			un := "unmarshal_" + sanitize(v.S)
			fc.B.DeclFun(fn, []string{v.S}, "String")
			fc.B.DeclFun(un, []string{"String"}, v.S)
			if t := "(" + fn + " " + v.T + ")"; !fc.B.inst[t] {
				fc.B.inst[t] = true
				fc.B.Assert(eq("("+un+" "+t+")", v.T)) // injective (dropped when under a quantifier)
			}
			return strVal("(" + fn + " " + v.T + ")")
		case "strings1":
			return Val{S: "(Slice String)", T: "(mkS false 1 (store ((as const (Array Int String)) \"\") 0 " + str(0) + "))", Typ: types.NewSlice(types.Typ[types.String])}
		case "vget", "vhas":
			v := argv(0)
			if v.S != "View" {
				return e.fail("%s: first argument must be a KVStore", id.Name)
			}
			kv := "(select (w_kv " + e.world(v) + ") (v_svc " + v.T + "))"
			k := "(str.++ (v_pre " + v.T + ") " + str(1) + ")"
			if id.Name == "vhas" {
				return boolVal(kvHas(kv, k))
			}
			return strVal(kvGet(kv, k))
		case "selfRevision":
			// revision number the chain derives from its chain id (real function, deterministic)
			if fn := fc.W.Funcs["modules/core/02-client/types.ParseChainID"]; fn != nil {
				return e.goCallVals(fn, []Val{strVal("(env_chainid (c_env " + argv(0).T + "))")})
			}
			return e.fail("ParseChainID not found")
		case "nth":
			v := argv(0)
			k, err := strconv.Atoi(n.Args[1].String())
			if err != nil || k >= len(v.Tuple) {
				return e.fail("nth: bad index")
			}
			return v.Tuple[k]
		case "withKV":
			w := argv(0)
			return Val{S: "WorldS", T: "(mkW (store (w_kv " + w.T + ") " + svcID(argv(1)) + " " + argv(2).T + ") (w_led " + w.T + ") (w_aux " + w.T + "))"}
		case "ledger":
			return Val{S: "Ledger", T: "(w_led " + e.world(argv(0)) + ")"}
		case "bal":
			l := argv(0)
			return intVal("(select (select (l_bal " + l.T + ") " + str(1) + ") " + str(2) + ")")
		case "supply":
			l := argv(0)
			return intVal("(select (l_supply " + l.T + ") " + str(1) + ")")
		case "has":
			return boolVal(kvHas(argv(0).T, str(1)))
		case "get":
			return strVal(kvGet(argv(0).T, str(1)))
		case "set":
			return Val{S: "KV", T: kvSet(argv(0).T, str(1), str(2))}
		case "del":
			return Val{S: "KV", T: kvDel(argv(0).T, str(1))}
		case "lmove", "lmint", "lburn":
			// ledger transformers: lmove(L, from, to, denom, amt), lmint(L, addr, denom, amt), lburn(L, addr, denom, amt)
			L := argv(0).T
			balOf := func(l, a, d string) string { return "(select (select (l_bal " + l + ") " + a + ") " + d + ")" }
			setBal := func(l, a, d, v string) string {
				return "(mkL (store (l_bal " + l + ") " + a + " (store (select (l_bal " + l + ") " + a + ") " + d + " " + v + ")) (l_supply " + l + "))"
			}
			if id.Name == "lmove" {
				from, to, d, amt := str(1), str(2), str(3), argv(4).T
				l1 := fc.def("led", "Ledger", setBal(L, from, d, "(- "+balOf(L, from, d)+" "+amt+")"))
				l2 := fc.def("led", "Ledger", setBal(l1, to, d, "(+ "+balOf(l1, to, d)+" "+amt+")"))
				return Val{S: "Ledger", T: l2}
			}
			addr, d, amt := str(1), str(2), argv(3).T
			sign := "+"
			if id.Name == "lburn" {
				sign = "-"
			}
			l1 := fc.def("led", "Ledger", setBal(L, addr, d, "("+sign+" "+balOf(L, addr, d)+" "+amt+")"))
			l2 := "(mkL (l_bal " + l1 + ") (store (l_supply " + l1 + ") " + d + " (" + sign + " (select (l_supply " + l1 + ") " + d + ") " + amt + ")))"
			return Val{S: "Ledger", T: fc.def("led", "Ledger", l2)}
		case "withLedger":
			w := argv(0)
			return Val{S: "WorldS", T: "(mkW (w_kv " + w.T + ") " + argv(1).T + " (w_aux " + w.T + "))"}
		case "svcid":
			return intVal(svcID(argv(0)))
		case "branch":
			c := argv(0)
			if c.S == "View" {
				return intVal("(v_br " + c.T + ")")
			}
			return intVal("(c_br " + c.T + ")")
		case "viewBranch":
			return intVal("(v_br " + argv(0).T + ")")
		case "viewSvc":
			return intVal("(v_svc " + argv(0).T + ")")
		case "prefixOf":
			return strVal("(v_pre " + argv(0).T + ")")
		case "bytes":
			return Val{S: "Bytes", T: "(mkB false " + str(0) + ")", Typ: types.NewSlice(types.Typ[types.Byte])}
		case "str", "string":
			v := argv(0)
			if v.S == "Int" {
				return strVal("(str.from_code " + v.T + ")")
			}
			return strVal(str(0))
		case "be64":
			return strVal(fc.B.Be64(argv(0).T))
		case "unbe64":
			return intVal(fc.B.UnBe64(str(0)))
		case "sha256":
			return strVal(fc.B.Hash("sha256", str(0)))
		case "keccak":
			return strVal(fc.B.Hash("keccak", str(0)))
		case "dec":
			return strVal(fc.B.Dec(argv(0).T))
		case "hasPrefix":
			return boolVal("(str.prefixof " + str(1) + " " + str(0) + ")")
		case "hasSuffix":
			return boolVal("(str.suffixof " + str(1) + " " + str(0) + ")")
		case "contains":
			return boolVal("(str.contains " + str(0) + " " + str(1) + ")")
		case "substr":
			return strVal("(str.substr " + str(0) + " " + argv(1).T + " " + argv(2).T + ")")
		case "errIs":
			return boolVal(and(not(eq(argv(0).T, "0")), eq("(err_root "+argv(0).T+")", "(err_root "+argv(1).T+")")))
		case "isNil":
			v := argv(0)
			switch {
			case v.S == "Bytes":
				return boolVal("(b_nil " + v.T + ")")
			case strings.HasPrefix(v.S, "(Slice"):
				return boolVal("(s_nil " + v.T + ")")
			case v.S == "Iface":
				return boolVal("(= (i_tag " + v.T + ") 0)")
			}
			return boolVal("(= " + v.T + " 0)")
		case "uint64", "int64", "int", "uint32", "int32", "uint8", "byte", "uint":
			return intVal(argv(0).T)
		case "effAuthority":
			fc.B.DeclFun("env_auth", []string{"Int"}, "String")
			return strVal(effAuth(argv(0).T, str(1)))
		case "bech32dec":
			fc.B.DeclFun("bech32_dec", []string{"String"}, "String")
			return strVal("(bech32_dec " + str(0) + ")")
		case "bech32ok":
			fc.B.DeclFun("bech32_ok", []string{"String"}, "Bool")
			return boolVal("(bech32_ok " + str(0) + ")")
		case "height":
			return intVal("(env_height (c_env " + argv(0).T + "))")
		case "blocktime":
			return intVal("(env_time (c_env " + argv(0).T + "))")
		case "chainid":
			return strVal("(env_chainid (c_env " + argv(0).T + "))")
		case "calls":
			// calls("key") : ghost call counter
			k := strings.Trim(n.Args[0].String(), "\"")
			if t, ok := e.state().ghosts["#calls:"+k]; ok {
				return intVal(t)
			}
			return intVal("0")
		case "deref":
			p := argv(0)
			if p.PBase == nil {
				if pt, ok := p.Typ.Underlying().(*types.Pointer); ok {
					p.PBase = pt.Elem()
				}
			}
			return fc.load(e.state(), p)
		case "dyn":
			// dyn(x, T): unbox interface value x as concrete type T
			v := argv(0)
			_, typ := e.typeByName(n.Args[1].String())
			if typ == nil {
				return e.fail("dyn: unknown type")
			}
			if v.S != "Iface" {
				return v
			}
			return fc.mkVal(typ, fc.B.Unbox(typ, "(i_pl "+v.T+")"))
		case "isType":
			v := argv(0)
			_, typ := e.typeByName(n.Args[1].String())
			if typ == nil {
				return e.fail("isType: unknown type")
			}
			if v.S != "Iface" {
				return boolVal(strconv.FormatBool(v.Typ != nil && types.Identical(v.Typ, typ)))
			}
			return boolVal(eq("(i_tag "+v.T+")", fc.B.Tag(typ)))
		}
		if sf := fc.W.Contracts.Specs[id.Name]; sf != nil {
			return e.specCall(sf, n.Args)
		}
		// Go function in the contract's package
		if fn := fc.W.Funcs[shortPkg(e.pkgPath)+"."+id.Name]; fn != nil {
			return e.goCall(fn, nil, n.Args)
		}
		// package-level `var X = regexp.MustCompile(lit).MatchString`
		if lit, ok := fc.W.globalRegexLiteral(e.pkgPath, id.Name); ok && len(n.Args) == 1 {
			if re, ok := regexToSMT(lit); ok {
				s, _ := asString(argv(0))
				fc.trusted["regexp "+e.pkgPath+"."+id.Name+" = "+lit+" translated to an SMT regular expression (RE2 subset)"] = true
				return boolVal("(str.in_re " + s + " " + re + ")")
			}
		}
		return e.fail("unknown function %s", id.Name)
	}
	if sel, ok := n.Fun.(*ESel); ok {
		if id, ok := sel.X.(*EIdent); ok {
			_, isVar := e.vars[id.Name]
			if !isVar && e.lookup != nil {
				_, isVar = e.lookup(id.Name)
			}
			if !isVar {
				if p, ok := fc.W.importsOf(e.pkgPath)[id.Name]; ok {
					if fn := fc.W.Funcs[shortPkg(p)+"."+sel.Name]; fn != nil {
						return e.goCall(fn, nil, n.Args)
					}
					if fn := fc.W.globalFuncAlias(p, sel.Name); fn != nil {
						return e.goCall(fn, nil, n.Args)
					}
					// external library function with a prelude model
					if _, ok := staticPrelude[p+"."+sel.Name]; ok {
						return e.preludeCall(p+"."+sel.Name, n.Args)
					}
					// package-level function variable of a dependency (e.g. sdk.MsgTypeURL): the same pure
					// uninterpreted function the executor uses for calls through it
					if tp := fc.W.typesPkg(p); tp != nil {
						if v, ok := tp.Scope().Lookup(sel.Name).(*types.Var); ok {
							if sig, ok := v.Type().Underlying().(*types.Signature); ok && sig.Results().Len() == 1 {
								fn := "gfn_" + sanitize(shortPkg(p)) + "_" + sel.Name
								var sorts, ts []string
								for i := range n.Args {
									a := argv(i)
									sorts = append(sorts, a.S)
									ts = append(ts, a.T)
								}
								rt := sig.Results().At(0).Type()
								fc.B.DeclFun(fn, sorts, fc.B.SortOf(rt))
								fc.trusted["function variable "+p+"."+sel.Name+" treated as a pure, never reassigned function"] = true
								return fc.mkVal(rt, app(fn, ts...))
							}
						}
					}
					return e.fail("unknown function %s.%s", id.Name, sel.Name)
				}
			}
		}
		// method call on a value
		recv := e.eval(sel.X)
		if recv.Typ == nil {
			return e.fail("method %s on untyped value", sel.Name)
		}
		var pkg *types.Package
		if nt, ok := derefType(recv.Typ).(*types.Named); ok {
			pkg = nt.Obj().Pkg()
		}
		if fn := fc.W.Prog.LookupMethod(recv.Typ, pkg, sel.Name); fn != nil {
			return e.goCall(fn, &recv, n.Args)
		}
		// value receiver method called on addressable value: try pointer type
		if _, isIface := recv.Typ.Underlying().(*types.Interface); !isIface {
			if _, isPtr := recv.Typ.Underlying().(*types.Pointer); !isPtr {
				if fn := fc.W.Prog.LookupMethod(types.NewPointer(recv.Typ), pkg, sel.Name); fn != nil && len(fn.Blocks) > 0 {
					return e.fail("method %s needs pointer receiver", sel.Name)
				}
			}
		}
		if impl := fc.closedImpl(recv.Typ); impl != nil {
			if nt, ok := derefType(impl).(*types.Named); ok {
				pkg = nt.Obj().Pkg()
			}
			if fn := fc.W.Prog.LookupMethod(impl, pkg, sel.Name); fn != nil {
				dv := fc.mkVal(impl, fc.B.Unbox(impl, "(i_pl "+recv.T+")"))
				return e.goCall(fn, &dv, n.Args)
			}
		}
		return e.fail("unknown method %s on %s", sel.Name, recv.Typ)
	}
	return e.fail("unsupported call %s", n.String())
}

func derefType(t types.Type) types.Type {
	if t == nil {
		return nil
	}
	t = types.Unalias(t)
	if p, ok := t.Underlying().(*types.Pointer); ok {
		return types.Unalias(p.Elem())
	}
	return t
}

// goCall evaluates a (pure) Go function of the repository inside a contract by symbolic execution.
func (e *Env) goCall(fn *ssa.Function, recv *Val, argExprs []Expr) Val {
	var args []Val
	if recv != nil {
		args = append(args, *recv)
	}
	for i, a := range argExprs {
		v := e.eval(a)
		// coerce spec values to the parameter sort
		pi := i
		if recv != nil {
			pi++
		}
		if pi < len(fn.Params) {
			v = e.coerce(v, fn.Params[pi].Type())
		}
		args = append(args, v)
	}
	return e.goCallVals(fn, args)
}

func (e *Env) goCallVals(fn *ssa.Function, args []Val) Val {
	fc := e.fc
	np, ns := len(fc.panicSites), len(fc.safetySites)
	fc.inSpec++
	defer func() { fc.inSpec-- }()
	var res []Val
	if p, ok := staticPrelude[fn.String()]; ok {
		fr := fc.newFrame(fn, 1, "true")
		st := e.state().clone()
		r := p.fn(&preCall{fr: fr, st: &st, reach: "true", args: args, resT: fn.Signature.Results(), name: fn.String(), spec: true})
		res = flatten(r)
	} else if c := fc.contractFor(fn); c != nil && !c.Flags["inline"] && c.Flags["pure"] {
		fr := fc.newFrame(fn, 1, "true")
		st := e.state().clone()
		r := fr.applyContract(c, fn, args, fn.Signature.Results(), &st, "true", QualName(fn))
		res = flatten(r)
	} else {
		if !fc.inlinable(fn, 0) {
			return e.fail("function %s cannot be used in a contract (not inlinable)", fn.String())
		}
		fr := fc.newFrame(fn, 1, "true")
		st := e.state().clone()
		res, _, _ = fr.exec(args, nil, st)
	}
	fc.panicSites = fc.panicSites[:np]
	fc.safetySites = fc.safetySites[:ns]
	if len(res) == 0 {
		return e.fail("function %s returns nothing", fn.String())
	}
	if len(res) == 1 {
		return res[0]
	}
	r0 := res[0]
	r0.Tuple = res
	return r0
}

func (e *Env) preludeCall(name string, argExprs []Expr) Val {
	fc := e.fc
	var args []Val
	for _, a := range argExprs {
		args = append(args, e.eval(a))
	}
	p := staticPrelude[name]
	fr := fc.newFrame(nil, 1, "true")
	st := e.state().clone()
	r := p.fn(&preCall{fr: fr, st: &st, reach: "true", args: args, name: name, spec: true})
	fl := flatten(r)
	if len(fl) == 0 {
		return e.fail("%s returns nothing", name)
	}
	if len(fl) == 1 {
		return fl[0]
	}
	return Val{Tuple: fl, S: fl[0].S, T: fl[0].T, Typ: fl[0].Typ}
}

func (e *Env) coerce(v Val, t types.Type) Val {
	s := e.fc.B.SortOf(t)
	if v.S == s {
		if v.Typ == nil {
			v.Typ = t
		}
		return v
	}
	switch {
	case v.S == "String" && s == "Bytes":
		return Val{S: "Bytes", T: "(mkB false " + v.T + ")", Typ: t}
	case v.S == "Bytes" && s == "String":
		return Val{S: "String", T: "(b_s " + v.T + ")", Typ: t}
	case v.S == "Nil":
		return Val{S: s, T: e.fc.zero(t), Typ: t}
	case s == "Iface" && v.Typ != nil && v.S != "Iface":
		nv := Val{S: "Iface", T: "(mkI " + e.fc.B.Tag(v.Typ) + " " + e.fc.B.Box(v.Typ, v.T) + ")", Typ: t}
		nv.Fn = &FnVal{Special: "dyn", Data: []Val{v}}
		return nv
	}
	return v
}

func (e *Env) specCall(sf *SpecFunc, argExprs []Expr) Val {
	fc := e.fc
	if len(argExprs) != len(sf.Params) {
		return e.fail("spec %s: wrong number of arguments", sf.Name)
	}
	var args []Val
	saved := e.pkgPath
	for _, a := range argExprs {
		args = append(args, e.eval(a))
	}
	if sf.Body != nil {
		sub := &Env{fc: fc, vars: map[string]Val{}, cur: e.cur, old: e.old, pkgPath: sf.PkgPath, inOld: e.inOld, recv: e.recv}
		for i, p := range sf.Params {
			sub.vars[p.Name] = args[i]
		}
		v := sub.eval(sf.Body)
		e.errs = append(e.errs, sub.errs...)
		e.pkgPath = saved
		return v
	}
	// uninterpreted
	sub := &Env{fc: fc, pkgPath: sf.PkgPath, vars: map[string]Val{}}
	var sorts []string
	var ts []string
	for i, p := range sf.Params {
		s, _ := sub.typeByName(p.Type)
		sorts = append(sorts, s)
		a := args[i]
		if s == "String" && a.S == "Bytes" {
			a.T = "(b_s " + a.T + ")"
		}
		ts = append(ts, a.T)
	}
	rs, rt := sub.typeByName(sf.Ret)
	first := !fc.B.declared["fun:spec_"+sf.Name]
	fc.B.DeclFun("spec_"+sf.Name, sorts, rs)
	if first && fc.specAxiomsRelevant(sf.Name) {
		// the axioms of an uninterpreted spec function are assumptions (listed in the evidence); they are
		// only emitted for functions whose own contract mentions the spec function (they are recursive
		// definitions and would only cause matching loops elsewhere — omitting assumptions is sound)
		for _, ax := range sf.Axioms {
			st0 := State{worlds: "Worlds0", heaps: map[string]string{}, ghosts: map[string]string{}, calls: map[string]string{}}
			aenv := &Env{fc: fc, vars: map[string]Val{}, cur: &st0, old: &st0, pkgPath: sf.PkgPath}
			fc.B.AssertNamed(fc.evalBool(aenv, ax.E), "axiom of spec "+sf.Name+": "+ax.Src)
			fc.trusted["spec axiom "+sf.Name+": "+ax.Src] = true
		}
	}
	return Val{S: rs, T: app("spec_"+sf.Name, ts...), Typ: rt}
}
