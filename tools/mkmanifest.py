#!/usr/bin/env python3
"""Regenerates /verif/MANIFEST.json from tools/claims.json (claimed properties) and properties.jsonl."""
import json, os, subprocess
V = '/verif'
props = [json.loads(l) for l in open(f'{V}/properties.jsonl')]
claims = json.load(open(f'{V}/tools/claims.json'))
na = json.load(open(f'{V}/tools/not_applicable.json'))
commits = subprocess.run(['git', '-C', '/repo', 'log', '--format=%H %s'], capture_output=True, text=True).stdout.splitlines()
hook_commits = [c.split()[0] for c in commits if c.split(' ', 1)[1].startswith('verif:')]
checks = []
for p in props:
    c = claims.get(p['id'])
    if not c:
        continue
    checks.append({
        'property_id': p['id'],
        'quick_cmd': f"./check {p['id']} --tier quick",
        'thorough_cmd': f"./check {p['id']} --tier thorough",
        'evidence_file': f"/verif/evidence/{p['id']}.json",
        'replay_cmd_template': "./replay {path}",
        'engine': 'govc',
        'level_claimed': {'category': 'proof', 'text': c['text'], 'design_ref': c.get('design_ref', 'DESIGN.md §5 ' + p['id'])},
        'level_note': c['note'],
        'technique': c.get('technique', 'contract-based deductive verification: weakest-precondition VCs generated from go/ssa of the real functions against //@ contracts, discharged by z3/cvc5'),
    })
m = {
    'version': 1,
    'setup_cmd': './setup.sh',
    'hooks': {
        'guard': 'verif',
        'enable': 'go/packages loads /repo with -tags verif; the only hook files are comment-only zz_verif_contracts.go (//go:build verif) holding the //@ contracts',
        'baseline_off_cmd': "cd /repo && for m in . ./e2e ./modules/light-clients/08-wasm ./simapp; do (cd $m && go test -mod=mod -vet=off -count=1 -timeout 25m ./...); done",
        'source_commits': hook_commits,
        'add_only': True,
    },
    'engines': [{'name': 'govc', 'path': '/verif/govc', 'serves_properties': [c['property_id'] for c in checks],
                 'kind_free_text': 'verification-condition generator for Go (go/packages + go/ssa -> SMT-LIB), contracts in //@ comments, z3 4.8.12 / z3 5.1.0 / cvc5 1.0 raced per obligation'}],
    'checks': checks,
    'notes': 'See DESIGN.md. Every check rebuilds SSA from /repo\'s working tree; quick and thorough differ in the per-solver timeout only (20 s / 120 s); the must-fail / harmless-edit self-test corpus (/verif/selftest) is a separate command, `bin/govc selftest [Cxx...]`, and never writes evidence. tools/checkall.sh runs every check and validates the evidence files (tools/validate_evidence.py).',
    'not_applicable': [{'property_id': p['id'], 'reason': na.get(p['id'], 'contracts for this property are not yet under a discharged check (see DESIGN.md §5 for the planned obligations)')} for p in props if p['id'] not in claims],
}
json.dump(m, open(f'{V}/MANIFEST.json', 'w'), indent=1)
print('claimed', len(checks), 'not_applicable', len(m['not_applicable']))
