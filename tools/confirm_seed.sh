#!/bin/sh
# usage: tools/confirm_seed.sh <worktree> <seed dir> <package dir (relative)> <demo run regex>
# confirms: builds with patch; demo fails with patch and passes without; existing tests of the package pass with patch
wt="$1"; sd="$2"; pkg="$3"; re="$4"
export PATH=/root/go/pkg/mod/golang.org/toolchain@v0.0.1-go1.26.5.linux-amd64/bin:$PATH GOTOOLCHAIN=local GOFLAGS=-mod=mod GOPROXY=off GOSUMDB=off
cd "$wt" || exit 2
git checkout -q -- . ; git apply "$sd/patch.diff" || { echo "APPLY-FAILED"; exit 2; }
cp "$sd/demo_test.go" "$pkg/zz_demo_test.go"
go build ./modules/... >/dev/null 2>&1 && echo "BUILD ok" || echo "BUILD failed"
go test -vet=off -count=1 -timeout 30m -run "$re" "./$pkg/" >/tmp/seed_with.log 2>&1; echo "DEMO with patch exit=$? (expect non-zero)"
rm "$pkg/zz_demo_test.go"
go test -vet=off -count=1 -timeout 40m "./$pkg/" >/tmp/seed_suite.log 2>&1; echo "SUITE with patch exit=$? (expect 0)"
git checkout -q -- .
cp "$sd/demo_test.go" "$pkg/zz_demo_test.go"
go test -vet=off -count=1 -timeout 30m -run "$re" "./$pkg/" >/tmp/seed_without.log 2>&1; echo "DEMO without patch exit=$? (expect 0)"
rm "$pkg/zz_demo_test.go"; git status --short | grep -v "^?? seed" | head -3
