#!/bin/sh
# usage: tools/trypatch.sh <seeded dir> <Cxx> [<Cxx>...]: applies the patch to /repo, runs the checks, reverts.
# The checks rewrite /verif/evidence/<id>.json on every run (they must: that is the interface), so the
# evidence and replay directories are saved before the seeded run and restored after it - an evidence file
# written against a seeded tree must never be left behind or committed (see DESIGN.md "Corrected false alarms").
d=$(cd "$1" && pwd) || exit 2; shift
cd /repo && [ -z "$(git status --porcelain)" ] || { echo "REFUSING: /repo has uncommitted changes"; exit 3; }
save=$(mktemp -d /var/tmp/verif-evidence-save.XXXXXX)
cp -a /verif/evidence "$save/evidence"; [ -d /verif/replays ] && cp -a /verif/replays "$save/replays"
restore() {
  cd /repo && git checkout -- .
  rm -rf /verif/evidence /verif/replays
  mv "$save/evidence" /verif/evidence; [ -d "$save/replays" ] && mv "$save/replays" /verif/replays
  rm -rf "$save"
}
trap restore EXIT INT TERM
git apply "$d/patch.diff" || { echo "patch does not apply"; exit 2; }
for id in "$@"; do
  (cd /verif && ./check "$id" 2>&1 | grep -E "VIOLATION|failed obligation|obligations," | cut -c1-260)
done
trap - EXIT INT TERM
restore
cd /repo && git status --short | head -3
