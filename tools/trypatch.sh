#!/bin/sh
# usage: tools/trypatch.sh <seeded dir> <Cxx> [<Cxx>...]: applies the patch to /repo, runs the checks, reverts
d="$1"; shift
cd /repo && [ -z "$(git status --porcelain)" ] || { echo "REFUSING: /repo has uncommitted changes"; exit 3; }
git apply "$d/patch.diff" || { echo "patch does not apply"; exit 2; }
for id in "$@"; do
  (cd /verif && ./check "$id" 2>&1 | grep -E "VIOLATION|failed obligation|obligations," | cut -c1-260)
done
cd /repo && git checkout -- . && git status --short | head -3
