#!/usr/bin/env python3
"""Validates every /verif/evidence/<id>.json: schema (/root/.vp/EVIDENCE.schema.json when jsonschema is
importable), proof-level consistency (discharged == obligations >= 1, violations == 0, samples non-empty),
that the file belongs to a property claimed in MANIFEST.json, and that every claimed property has one.
Run before committing evidence: a file written while a seeded change was applied to /repo fails here.
exit 0 = all valid."""
import json, os, sys

V = "/verif"
man = json.load(open(f"{V}/MANIFEST.json"))
claimed = {c["property_id"]: c for c in man["checks"]}
bad = 0
schema = None
try:
    import jsonschema
    schema = json.load(open("/root/.vp/EVIDENCE.schema.json"))
except Exception as e:  # jsonschema lives in the tooling venv (python3-vt); the structural checks below still run
    print("note: schema validation skipped:", e)

files = sorted(f[:-5] for f in os.listdir(f"{V}/evidence") if f.endswith(".json"))
for pid in sorted(set(files) | set(claimed)):
    p = f"{V}/evidence/{pid}.json"
    errs = []
    if pid not in claimed:
        errs.append("evidence file for a property that MANIFEST.json does not claim")
    if not os.path.exists(p):
        errs.append("claimed property has no evidence file")
    else:
        d = json.load(open(p))
        if schema is not None:
            for e in jsonschema.Draft202012Validator(schema).iter_errors(d):
                errs.append("schema: " + e.message[:200])
        c = d.get("coverage", {})
        if d.get("property_id") != pid:
            errs.append("property_id mismatch")
        if d.get("level") == "proof":
            if c.get("obligations", 0) < 1:
                errs.append("no obligations")
            if c.get("discharged") != c.get("obligations"):
                errs.append(f"discharged ({c.get('discharged')}) != obligations ({c.get('obligations')})")
        if d.get("violations", 0) != 0:
            errs.append(f"violations = {d.get('violations')}")
        if c.get("failed"):
            errs.append(f"failed obligations listed: {c.get('failed')}")
        if not c.get("samples"):
            errs.append("no samples")
        if pid in claimed and d.get("level") != claimed[pid]["level_claimed"]["category"]:
            errs.append("level differs from MANIFEST level_claimed.category")
    if errs:
        bad += 1
        for e in errs:
            print(f"INVALID {pid}: {e}")
    else:
        print(f"ok {pid}: {c.get('obligations')} obligations, {c.get('discharged')} discharged, tier={d.get('tier')} seed={d.get('seed')}")
sys.exit(1 if bad else 0)
