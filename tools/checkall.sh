#!/bin/sh
# runs every property spec (or the given ids) and prints one summary line each
cd /verif
ids="$@"
[ -z "$ids" ] && ids=$(ls props/*.spec | sed 's|props/||; s|\.spec||' | sort)
for id in $ids; do
  out=$(./check $id 2>&1)
  echo "$out" | tail -1
  echo "$out" | grep "failed obligation" | cut -c1-220
done
