#!/bin/sh
# runs every claimed property (or the given ids) on /repo's current tree, prints one summary line each,
# then validates every evidence file (schema, discharged == obligations, no stale or unclaimed files).
# Run this on the UNCHANGED tree before committing /verif/evidence.
cd /verif
ids="$@"
[ -z "$ids" ] && ids=$(ls props/*.spec | sed 's|props/||; s|\.spec||' | sort)
rc=0
for id in $ids; do
  rm -f evidence/$id.json
  out=$(./check $id 2>&1) || rc=1
  echo "$out" | tail -1
  echo "$out" | grep -E "VIOLATION|KNOWN-FINDING|failed obligation" | cut -c1-220
done
py=python3; command -v python3-vt >/dev/null 2>&1 && py=python3-vt
$py tools/validate_evidence.py || rc=1
exit $rc
