#!/bin/sh
# Builds govc offline (go1.26.8 + golang.org/x/tools v0.50.0 from the module cache) and warms the
# build cache so that go/packages export data for /repo's dependencies is available (cold: ~6 min).
set -e
export PATH=/opt/veriftools/go1.26.8/bin:$PATH GOFLAGS=-mod=mod GOPROXY=off GOSUMDB=off GOTOOLCHAIN=local
cd /verif/govc
mkdir -p /verif/bin /verif/evidence
go build -o /verif/bin/govc .
/verif/bin/govc funcs __warm__ >/dev/null
(cd /repo/modules/light-clients/08-wasm && go list -export -tags verif ./... >/dev/null 2>&1 || true)
echo "govc built"
